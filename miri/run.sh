#!/bin/bash
# miri/run.sh <scenario> <seed-from> <seed-to>
# exit 0: every execution clean; exit 1: Miri reported undefined behaviour (data race, use after free,
# double free), a leak or a panic of the scenario; exit 2: Miri could not be run (infrastructure)
cd "$(dirname "$0")" || exit 2
SC="$1"; A="${2:-0}"; B="${3:-8}"
export MIRIFLAGS="-Zmiri-many-seeds=$A..$B -Zmiri-tree-borrows -Zmiri-preemption-rate=0.1"
EXTRA=()
if [ -n "${VERIF_REPO:-}" ]; then
  EXTRA+=(--config "paths=[\"$VERIF_REPO\"]")
  export CARGO_TARGET_DIR="${VERIF_TARGET_DIR:-$VERIF_REPO/.orxsim-target}-miri"
fi
OUT=$(timeout 1800 cargo +nightly miri run --offline "${EXTRA[@]}" -- "$SC" 2>&1)
OK=$(echo "$OUT" | grep -c "^scenario $SC ok")
ERR=$(echo "$OUT" | grep -E "Undefined Behavior|Data race|data race|memory leaked|panicked at|scenario .* failed" | head -5)
echo "$SC ok=$OK of $((B-A))"
if [ "$OK" -eq $((B-A)) ]; then exit 0; fi
if [ -n "$ERR" ]; then echo "$ERR"; exit 1; fi
echo "miri could not be run: $(echo "$OUT" | grep -E "^error" | head -2)"
exit 2
