#!/bin/bash
# miri/run.sh <scenario> <seed-from> <seed-to>   -> prints "<scenario> ok=<n> of <m>" and any Miri error
cd "$(dirname "$0")" || exit 2
SC="$1"; A="${2:-0}"; B="${3:-8}"
export MIRIFLAGS="-Zmiri-many-seeds=$A..$B -Zmiri-tree-borrows -Zmiri-preemption-rate=0.1"
EXTRA=()
if [ -n "${VERIF_REPO:-}" ]; then
  EXTRA+=(--config "paths=[\"$VERIF_REPO\"]")
  export CARGO_TARGET_DIR="${VERIF_TARGET_DIR:-$VERIF_REPO/.orxsim-target}-miri"
fi
OUT=$(timeout 1800 cargo +nightly miri run --offline "${EXTRA[@]}" -- "$SC" 2>&1)
OK=$(echo "$OUT" | grep -c "^scenario $SC ok")
ERR=$(echo "$OUT" | grep -E "^error|Undefined Behavior|Data race|data race|memory leaked|panicked" | head -5)
echo "$SC ok=$OK of $((B-A))"
[ -n "$ERR" ] && echo "$ERR"
[ "$OK" -eq $((B-A)) ]
