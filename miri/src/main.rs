//! Engine B: plain `std::thread` scenarios over the real crate (hooks compiled out), to be run
//! under Miri (`cargo +nightly miri run -- <scenario>`), whose own seeded scheduler, weak-memory
//! emulation, data-race detector, use-after-free / double-free detection and leak check are an
//! independent implementation of what engine A's vector clocks and ledgers decide.
use orx_concurrent_iter::*;
use std::sync::atomic::{AtomicUsize, Ordering};

fn boxed(n: usize) -> Vec<Box<usize>> {
    // spare capacity: a buffer rebuilt or released with the length as its capacity is caught
    let mut v = Vec::with_capacity(n + 3);
    v.extend((0..n).map(Box::new));
    v
}

fn pull_mixed<C>(it: &C, t: usize, sum: &AtomicUsize)
where
    C: ConcurrentIter<Item = Box<usize>>,
{
    match t % 3 {
        0 => {
            while let Some(x) = it.next_id_and_value() {
                assert_eq!(x.idx, *x.value);
                sum.fetch_add(*x.value, Ordering::Relaxed);
            }
        }
        1 => {
            while let Some(c) = it.next_chunk(3) {
                let b = c.begin_idx;
                // consume only part of every other chunk: the rest must be dropped by the chunk
                for (i, v) in c.values.enumerate() {
                    assert_eq!(b + i, *v);
                    sum.fetch_add(*v, Ordering::Relaxed);
                }
            }
        }
        _ => {
            let mut buf = it.buffered_iter(2);
            while let Some(c) = buf.next() {
                let b = c.begin_idx;
                for (i, v) in c.values.enumerate() {
                    assert_eq!(b + i, *v);
                    sum.fetch_add(*v, Ordering::Relaxed);
                }
            }
        }
    }
}

fn run<C>(it: C, n: usize, threads: usize, skip_at: Option<usize>, into_seq: bool)
where
    C: ConcurrentIter<Item = Box<usize>>,
{
    let sum = AtomicUsize::new(0);
    // all threads start pulling together (otherwise the first one drains a small source alone)
    let gate = std::sync::Barrier::new(threads);
    std::thread::scope(|s| {
        for t in 0..threads {
            let it = &it;
            let sum = &sum;
            let gate = &gate;
            s.spawn(move || {
                gate.wait();
                if let Some(k) = skip_at {
                    if t == 0 {
                        for _ in 0..k {
                            if let Some(x) = it.next() {
                                sum.fetch_add(*x, Ordering::Relaxed);
                            }
                        }
                        it.skip_to_end();
                        assert!(it.next().is_none());
                        return;
                    }
                }
                pull_mixed(it, t, sum);
            });
        }
    });
    let mut rest = 0;
    if into_seq {
        for x in it.into_seq_iter() {
            rest += *x;
        }
    } else {
        drop(it);
    }
    if skip_at.is_none() {
        assert_eq!(sum.load(Ordering::Relaxed) + rest, n * (n.max(1) - 1) / 2);
    }
}

fn main() {
    let sc = std::env::args().nth(1).unwrap_or_else(|| "iter".into());
    let n = 14;
    match sc.as_str() {
        "iter" => run(boxed(n).into_iter().into_con_iter(), n, 4, None, false),
        "iter_skip" => run(boxed(n).into_iter().into_con_iter(), n, 4, Some(3), true),
        "vec" => run(boxed(n).into_con_iter(), n, 4, None, false),
        "vec_skip" => run(boxed(n).into_con_iter(), n, 4, Some(2), true),
        "vec_partial" => {
            let it = boxed(n).into_con_iter();
            let _ = it.next();
            let c = it.next_chunk(4).map(|c| c.values.take(1).count());
            assert_eq!(c, Some(1));
            let rest: usize = it.into_seq_iter().map(|x| *x).sum();
            assert_eq!(rest, (5..n).sum());
        }
        "array" => {
            let a: [Box<usize>; 9] = std::array::from_fn(Box::new);
            run(a.into_con_iter(), 9, 4, None, false)
        }
        "array_skip" => {
            let a: [Box<usize>; 9] = std::array::from_fn(Box::new);
            run(a.into_con_iter(), 9, 4, Some(2), true)
        }
        other => panic!("unknown scenario {other}"),
    }
    println!("scenario {sc} ok");
}
