#!/bin/bash
# tools/sensitivity.sh [mutant-name-prefix...]
# Runs every mutant of tools/mutants/ against the checks that are expected to catch it (and, for
# the "must stay quiet" variants B*, against all claimed checks), in a scratch worktree each.
# Writes tools/mutants/results.json: mutant -> property -> exit code / first violation.
set -u
HERE="$(cd "$(dirname "$0")/.." && pwd)"
cd "$HERE"
export MUT_TARGET=/tmp/orxsim-mut-target MUT_RUNS="${MUT_RUNS:-30000}"
ALL=$(jq -r '.checks[].property_id' MANIFEST.json | tr '\n' ' ')
RES=tools/mutants/results.json; [ -f "$RES" ] || echo '{}' > "$RES"
for PATCH in tools/mutants/*.patch; do
  NAME=$(basename "$PATCH" .patch)
  if [ $# -gt 0 ]; then match=0; for pre in "$@"; do [[ "$NAME" == $pre* ]] && match=1; done; [ $match -eq 1 ] || continue; fi
  EXPECT=$(jq -r --arg n "$NAME" '.[$n].expected_to_fail | join(" ")' tools/mutants/expect.json)
  case "$NAME" in B*) PROPS="$ALL" ;; *) PROPS="$EXPECT" ; [ -z "$PROPS" ] && PROPS="$ALL" ;; esac
  OUT=$(tools/mutant.sh "$PATCH" $PROPS 2>&1)
  echo "$OUT" | cut -c1-330
  OBJ=$(echo "$OUT" | grep "^MUTANT" | sed -E 's/^MUTANT [^ ]+ (C[0-9]+) rc=([0-9]+).*:: (.*)$/\1\t\2\t\3/' | jq -R -s 'split("\n") | map(select(length>0) | split("\t") | {(.[0]): {rc: (.[1]|tonumber), first_violation: (.[2] // "")}}) | add // {}')
  jq --arg n "$NAME" --argjson o "$OBJ" '. + {($n): $o}' "$RES" > "$RES.tmp" && mv "$RES.tmp" "$RES"
done
rm -rf "$MUT_TARGET"
