#!/bin/bash
# tools/run_seed.sh [--in-repo] <seed-name> [PROP...]
# Runs the quick checks (all claimed ones by default) against a seeded change and writes
# $HERE/seeded/<seed-name>/detection.json.
#   default    : the patch is applied to a scratch worktree of /repo HEAD and the checks are pointed
#                at it with VERIF_REPO (own target dir) - does not disturb /repo, can run in background
#   --in-repo  : the literal procedure: git -C /repo apply, run the checks as registered (they
#                rebuild from /repo), git -C /repo checkout -- . straight afterwards
# SEED_MERGE=1: keep the results of checks not named now (from an existing detection.json).
# Evidence/replays of these runs go to a scratch dir, never to /verif/evidence.
set -u
HERE="$(cd "$(dirname "$0")/.." && pwd)"
INREPO=0; if [ "$1" = "--in-repo" ]; then INREPO=1; shift; fi
NAME="$1"; shift
D=$HERE/seeded/$NAME
PROPS=("$@"); [ ${#PROPS[@]} -eq 0 ] && PROPS=($(jq -r '.checks[].property_id' "$HERE/MANIFEST.json"))
SCR=$(mktemp -d /tmp/orx-seedrun-XXXXXX); mkdir -p "$SCR/evidence" "$SCR/replays"; cp "$HERE/known_findings.json" "$SCR/"
if [ $INREPO -eq 1 ]; then
  if [ -n "$(git -C /repo status --porcelain --untracked-files=no)" ]; then echo "/repo has uncommitted changes"; exit 2; fi
  trap 'git -C /repo checkout -- . ; rm -rf "$SCR"' EXIT
  git -C /repo apply "$D/patch.diff" || exit 2
  HOW="patch applied to /repo working tree, quick checks as registered, /repo reverted afterwards"
else
  WT=$(mktemp -d /tmp/orx-seedwt-XXXXXX)
  git -C /repo worktree add -q --detach "$WT" HEAD || exit 2
  trap 'git -C /repo worktree remove --force "$WT" >/dev/null 2>&1; rm -rf "$WT" "$SCR"' EXIT
  git -C "$WT" apply "$D/patch.diff" || exit 2
  export VERIF_REPO="$WT" VERIF_TARGET_DIR="${SEED_TARGET:-/tmp/orxsim-seed-target}"
  HOW="patch applied to a scratch worktree of /repo HEAD, quick checks run with VERIF_REPO pointing at it"
fi
# results of checks that are not re-run now are kept (column re-runs after a check was strengthened)
RES="{}"; [ -n "${SEED_MERGE:-}" ] && [ -f "$D/detection.json" ] && RES=$(jq -c '.results' "$D/detection.json")
for P in "${PROPS[@]}"; do
  OUT=$(VERIF_OUT_DIR="$SCR" "$HERE/check" "$P" quick 2>&1); RC=$?
  FIRST=$(echo "$OUT" | grep -m1 "^violation" | cut -c1-300)
  echo "SEED $NAME $P rc=$RC :: $FIRST"
  RES=$(echo "$RES" | jq --arg p "$P" --argjson rc $RC --arg first "$FIRST" '. + {($p): {rc: $rc, first_violation: $first}}')
done
echo "$RES" | jq --arg name "$NAME" --arg head "$(git -C /repo rev-parse --short HEAD)" --arg how "$HOW" '{seed: $name, repo_head: $head, ran: $how, results: .}' > "$D/detection.json"
