#!/bin/bash
# tools/sweep.sh <tier> <seed-from> <seed-to> [PROP...]
# Runs the checks for a range of base seeds (alarm hunt on the unchanged tree). Output dir is a scratch
# dir so that the committed evidence is not touched. Prints one line per (seed, property).
set -u
TIER="$1"; A="$2"; B="$3"; shift 3
HERE="$(cd "$(dirname "$0")/.." && pwd)"
PROPS=("$@"); [ ${#PROPS[@]} -eq 0 ] && PROPS=($(jq -r '.checks[].property_id' "$HERE/MANIFEST.json"))
SCR=$(mktemp -d /tmp/orx-sweep-XXXXXX); mkdir -p "$SCR/evidence" "$SCR/replays"; cp "$HERE/known_findings.json" "$SCR/"
for S in $(seq "$A" "$B"); do
  for P in "${PROPS[@]}"; do
    OUT=$(VERIF_SEED=$S VERIF_OUT_DIR="$SCR" "$HERE/check" "$P" "$TIER" 2>&1); RC=$?
    echo "SWEEP seed=$S $P $TIER rc=$RC $(echo "$OUT" | head -1 | sed 's/.*simulated runs in/runs in/' | cut -c1-40) :: $(echo "$OUT" | grep -m1 '^violation\|harness error' | cut -c1-300)"
    if [ $RC -ne 0 ]; then mkdir -p "$HERE/replays/sweep"; cp "$SCR"/replays/*.json "$HERE/replays/sweep/" 2>/dev/null; fi
  done
done
rm -rf "$SCR"
