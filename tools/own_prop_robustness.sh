#!/bin/bash
# tools/own_prop_robustness.sh [seed-name...]   (OWN_SEEDS="2 3 4" by default, OWN_TARGET=<cargo target dir>)
# For every (or each given) seeded change: is it caught by its own property's quick check also for other base seeds?
HERE="$(cd "$(dirname "$0")/.." && pwd)"
SCR=$(mktemp -d /tmp/orx-own-XXXXXX); mkdir -p "$SCR/evidence" "$SCR/replays"; cp "$HERE/known_findings.json" "$SCR/"
NAMES=("$@"); [ ${#NAMES[@]} -eq 0 ] && NAMES=($(ls "$HERE/seeded"))
for N0 in "${NAMES[@]}"; do
  D="$HERE/seeded/$N0"
  N=$(basename "$D"); P=$(jq -r .property "$D/meta.json")
  WT=$(mktemp -d /tmp/orx-ownwt-XXXXXX)
  git -C /repo worktree add -q --detach "$WT" HEAD || continue
  if git -C "$WT" apply "$D/patch.diff"; then
    for S in ${OWN_SEEDS:-2 3 4}; do
      OUT=$(VERIF_SEED=$S VERIF_REPO="$WT" VERIF_TARGET_DIR="${OWN_TARGET:-/tmp/orxsim-own-target}" VERIF_OUT_DIR="$SCR" "$HERE/check" "$P" quick 2>&1); RC=$?
      echo "OWN $N $P seed=$S rc=$RC $(echo "$OUT" | head -1 | sed 's/.*seed [0-9]*, //' | cut -c1-40)"
    done
  else echo "OWN $N: patch does not apply"; fi
  git -C /repo worktree remove --force "$WT" >/dev/null 2>&1; rm -rf "$WT"
done
rm -rf "$SCR" "${OWN_TARGET:-/tmp/orxsim-own-target}"
