#!/usr/bin/env python3
"""tools/own_results.py <log>...  - collects the `OWN <seed> <PROP> seed=<s> rc=<n>` lines printed by
tools/own_prop_robustness.sh into seeded_own_property_detection.json (later logs override earlier
ones for the same seed and base seed)."""
import json, os, re, sys
HERE = os.path.dirname(os.path.dirname(os.path.abspath(__file__)))
LINE = re.compile(r'^OWN (\S+) (C\d\d) seed=(\d+) rc=(\d+)')
out_path = os.path.join(HERE, 'seeded_own_property_detection.json')
res = json.load(open(out_path)) if os.path.exists(out_path) else {}
for path in sys.argv[1:]:
    for line in open(path, errors='replace'):
        m = LINE.match(line)
        if m:
            name, prop, s, rc = m.groups()
            res.setdefault(name, {'property': prop, 'by_base_seed': {}})
            res[name]['property'] = prop
            res[name]['by_base_seed'][s] = int(rc)
json.dump(dict(sorted(res.items())), open(out_path, 'w'), indent=1)
caught = sum(1 for v in res.values() if v['by_base_seed'] and all(rc == 1 for rc in v['by_base_seed'].values()))
print(f"{len(res)} seeded changes, {caught} caught by the check of their own property for every base seed tried")
for k, v in res.items():
    if not all(rc == 1 for rc in v['by_base_seed'].values()):
        print("  not (always) caught:", k, v)
