#!/usr/bin/env python3
"""tools/detection_from_log.py <log>...
Merges the `SEED <name> <PROP> rc=<n> :: <first violation>` lines that tools/run_seed.sh prints
(e.g. the output file of a `vp run -- ./tools/seed_matrix.sh` whose snapshot is gone) into
seeded/<name>/detection.json. Results of checks that do not occur in the logs are kept."""
import json, os, re, subprocess, sys

HERE = os.path.dirname(os.path.dirname(os.path.abspath(__file__)))
LINE = re.compile(r'^SEED (\S+) (C\d\d) rc=(\d+) :: ?(.*)$')
head = subprocess.check_output(['git', '-C', '/repo', 'rev-parse', '--short', 'HEAD']).decode().strip()
found = {}
for path in sys.argv[1:]:
    for line in open(path, errors='replace'):
        m = LINE.match(line.rstrip('\n'))
        if m:
            name, prop, rc, first = m.groups()
            found.setdefault(name, {})[prop] = {'rc': int(rc), 'first_violation': first}
for name, res in sorted(found.items()):
    d = os.path.join(HERE, 'seeded', name)
    if not os.path.isdir(d):
        print(f'{name}: no such seed, skipped')
        continue
    p = os.path.join(d, 'detection.json')
    old = json.load(open(p)) if os.path.exists(p) else {'seed': name, 'results': {}}
    old['results'].update(res)
    old['repo_head'] = head
    old['ran'] = 'patch applied to a scratch worktree of /repo HEAD, quick checks run with VERIF_REPO pointing at it'
    old['results'] = dict(sorted(old['results'].items()))
    json.dump(old, open(p, 'w'), indent=2)
    open(p, 'a').write('\n')
    print(f'{name}: {len(res)} results merged')
