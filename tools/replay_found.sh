#!/bin/bash
# Replays every violation file that justified a repair (replays/found/): none may reproduce on the repaired tree.
HERE="$(cd "$(dirname "$0")/.." && pwd)"
RC=0
for f in "$HERE"/replays/found/*.json "$HERE"/replays/found/c16/*.json; do
  p=$(jq -r .property "$f")
  out=$("$HERE/check" "$p" --replay "$f" 2>&1 | tail -1 | cut -c1-90)
  case "$(basename "$f")" in K*) note="(known finding: expected to reproduce)";; *) note="";; esac
  echo "$(basename "$f"): $out $note"
  case "$out" in REPRODUCED*) case "$(basename "$f")" in K*) ;; *) RC=1;; esac;; esac
done
exit $RC
