#!/usr/bin/env python3
"""Generates tools/mutants/*.patch (the mutation plan of DESIGN.md Appendix A, adapted to the repaired
tree) from textual edits, and tools/mutants/expect.json: which checks are expected to catch which mutant.
Each mutant compiles; most pass the repository's own suite (sums on x86, no drop counting, each thread
stops at its first None)."""
import json, os, subprocess, tempfile, shutil, sys

M = []  # (name, [(file, old, new)], [props expected to fail], note)
def m(name, edits, props, note=""):
    M.append((name, edits, props, note))

AC = 'src/iter/atomic_counter.rs'
IT = 'src/iter/implementors/iter.rs'
BI = 'src/iter/buffered/iter.rs'
SL = 'src/iter/implementors/slice.rs'
VE = 'src/iter/implementors/vec.rs'
AR = 'src/iter/implementors/array.rs'
RA = 'src/iter/implementors/range.rs'
BS = 'src/iter/buffered/slice.rs'
BR = 'src/iter/buffered/range.rs'
CL = 'src/iter/cloned.rs'
CO = 'src/iter/copied.rs'
FE = 'src/iter/default_fns/for_each.rs'
FO = 'src/iter/default_fns/fold.rs'
CI = 'src/iter/con_iter.rs'
BF = 'src/iter/buffered/buffered_iter.rs'
IV = 'src/iter/wrappers/ids_and_values.rs'

m('A01-fetch-add-relaxed', [(AC, 'self.current.fetch_add(len, Ordering::AcqRel)', 'self.current.fetch_add(len, Ordering::Relaxed)'),
                            (AC, 'self.current.fetch_add(1, Ordering::AcqRel)', 'self.current.fetch_add(1, Ordering::Relaxed)')], ['C07'])
m('A02-current-relaxed-again', [(AC, 'self.current.load(Ordering::Acquire)', 'self.current.load(Ordering::Relaxed)')], ['C07'])
m('A03-nonatomic-increment', [(AC, '''        self.current.fetch_add(len, Ordering::AcqRel)''', '''        let c = self.current.load(Ordering::Acquire);
        self.current.store(c + len, Ordering::Release);
        c''')], ['C01', 'C04'])
m('A04-counter-clone-zero', [(AC, 'current: self.current.load(Ordering::SeqCst).into(),', 'current: 0.into(),')], ['C19'])
m('A06-fetch_n-publishes-buffer-len', [(IT, '''                _ => {
                    let values = buffer.into_iter();
                    let older_count = self.progress_yielded_counter(n);''', '''                _ => {
                    let older_count = self.progress_yielded_counter(buffer.len());
                    let values = buffer.into_iter();''')], [], 'equivalent since repair S7e: buffer.len() < n only when the wrapped iterator ended, and then completed is set, so no waiter depends on the yielded count any more')
m('A07-buffered-pull-publishes-filled', [(BI, 'let older_count = iter.progress_yielded_counter(self.chunk_size());', 'let older_count = iter.progress_yielded_counter(i.max(1));')], [], 'equivalent since repair S11: the filled count is below the chunk size only when the wrapped iterator ended, and then completed is set (it was caught by C09 as a deadlock before S11)')
m('A08-buffered-chunk-len-is-chunk-size', [(BI, '''        match i {
            0 => None,''', '''        let i = if i > 1 { self.values.len() } else { i };
        match i {
            0 => None,''')], ['C03'])
m('A09-try_get_len-ignores-completed', [(IT, '''        match self.completed.load(atomic::Ordering::SeqCst) {
            true => Some(0),
            false => self.initial_len.map(|initial_len| {''', '''        match self.completed.load(atomic::Ordering::SeqCst) && false {
            true => Some(0),
            false => self.initial_len.map(|initial_len| {''')], ['C06', 'C11'])
m('A09b-try_get_len-flag-before-counter-again', [(IT, '''        let current = <Self as AtomicIter<_>>::counter(self).current();
        match self.completed.load(atomic::Ordering::SeqCst) {
            true => Some(0),
            false => self.initial_len.map(|initial_len| {''', '''        match self.completed.load(atomic::Ordering::SeqCst) {
            true => Some(0),
            false => self.initial_len.map(|initial_len| {
                let current = <Self as AtomicIter<_>>::counter(self).current();''')], ['C11'])
m('A10-initial-len-from-lower-bound', [(IT, '''            (lower, Some(upper)) if lower == upper => Some(lower),
            _ => None,''', '''            (lower, Some(upper)) if lower == upper => Some(lower),
            (lower, Some(_)) => Some(lower),
            _ => None,''')], ['C11'])
m('A11a-early-exit-only-flag', [(IT, '''        self.completed.store(true, atomic::Ordering::SeqCst);
        self.counter().store(usize::MAX);''', '''        self.completed.store(true, atomic::Ordering::SeqCst);''')], [], 'believed equivalent after the S2 repair: every ticket holder re-checks completed')
m('A11b-early-exit-only-counter', [(IT, '''        self.completed.store(true, atomic::Ordering::SeqCst);
        self.counter().store(usize::MAX);''', '''        self.counter().store(usize::MAX);''')], ['C06', 'C09'])
m('A11c-equal-arm-forgets-completed', [(IT, '''                    if self.completed.load(atomic::Ordering::Relaxed) {
                        return None;
                    }
                    let guard''', '''                    let guard''')], ['C06', 'C07'])
m('A12-slice-skip-stores-len-minus-1', [(SL, 'self.counter().store(self.slice.len())', 'self.counter().store(self.slice.len().saturating_sub(1))')], ['C06'])
m('A13-slice-into_seq-skips-one-more', [(SL, 'self.slice.iter().skip(current)', 'self.slice.iter().skip(current + (current > 0) as usize)')], ['C10'])
m('A14-vec-into_seq-unclamped', [(VE, 'let remaining_vec = unsafe { self.split_off_right(current.min(self.vec_len)) };', 'let remaining_vec = unsafe { self.split_off_right(current) };')], ['C10'])
m('A15-vec-drop-does-not-drop-remainder', [(VE, '''        if current <= self.vec_len {
            let _remaining_vec_to_be_dropped = unsafe { self.split_off_right(current) };
        }
''', '')], ['C08'])
m('A16-vec-drop-splits-one-early', [(VE, 'let _remaining_vec_to_be_dropped = unsafe { self.split_off_right(current) };', 'let _remaining_vec_to_be_dropped =\n                unsafe { self.split_off_right(current.saturating_sub(1)) };')], ['C08'])
m('A17-array-fetch_n-no-max', [(AR, 'let end_idx = begin_idx.saturating_add(n).min(N).max(begin_idx);', 'let end_idx = begin_idx.saturating_add(n).min(N);')], ['C03', 'C05'], 'after an overshoot begin_idx == N so min(N) == begin_idx: believed equivalent')
m('A18-range-len-from-end', [(RA, '''        let current = <Self as AtomicIter<_>>::counter(self).current();
        let initial_len = <Self as AtomicIterWithInitialLen<_>>::initial_len(self);''', '''        let current = <Self as AtomicIter<_>>::counter(self).current();
        let initial_len: usize = self.range.end.into();''')], ['C11'])
m('A19-range-into_seq-from-start', [(RA, '(self.range.start + current.into())..self.range.end', '{ let _ = current; self.range.start..self.range.end }')], ['C10'])
m('A20-buffered-slice-empty-chunk-at-end', [(BS, '''        match begin_idx.cmp(&slice.len()) {
            Ordering::Less => {''', '''        match begin_idx.cmp(&(slice.len() + 1)) {
            Ordering::Less => {''')], ['C03'], 'unreachable: progress_and_get_begin_idx filters begin >= len; believed equivalent')
m('A21-buffered-range-drops-start', [(BR, 'let begin_value = begin_idx + range.start.into();', 'let begin_value = begin_idx.max(range.start.into());')], ['C02', 'C03'])
m('A22-cloned-early-exit-noop', [(CL, '''    fn early_exit(&self) {
        self.iter.early_exit()
    }''', '''    fn early_exit(&self) {}''')], ['C13', 'C06'])
m('A23-copied-fetch_n-halves', [(CO, '''        self.iter.fetch_n(n).map(|x| NextChunk {''', '''        self.iter.fetch_n(if n > 3 { n - 1 } else { n }).map(|x| NextChunk {''')], ['C13', 'C03'])
m('A24-for_each-single-path-pulls-two', [(FE, '''            while let Some(value) = iter.next() {
                f(value);
            }''', '''            while let Some(value) = iter.next() {
                f(value);
                if iter.try_get_len() == Some(1) {
                    let _ = iter.next();
                }
            }''')], ['C12', 'C01'])
m('A25-fold-restarts-from-neutral-per-chunk', [(FO, '''            while let Some(chunk) = buffered_iter.next() {
                for value in chunk.values {
                    result = f(result, value);
                }
            }''', '''            while let Some(chunk) = buffered_iter.next() {
                let mut first = true;
                for value in chunk.values {
                    if first && chunk.begin_idx > 0 && chunk.begin_idx % 7 == 0 {
                        first = false;
                        continue;
                    }
                    result = f(result, value);
                }
            }''')], ['C12'])
m('A26-has_more-zero-is-maybe', [(CI, 'Some(0) => HasMore::No,', 'Some(0) => HasMore::Maybe,')], ['C11', 'C06'])
m('A27-buffered-zero-size-allowed', [(BF, '''        assert!(
            buffered_iter.chunk_size() > 0,
            "Chunk size must be positive."
        );
''', '')], ['C16'])
m('A28-slice-waits-for-predecessor', [(SL, '''        let begin_idx = self.counter().fetch_and_add(number_to_fetch);
        match begin_idx.cmp(&self.initial_len()) {''', '''        let begin_idx = self.counter().fetch_and_add(number_to_fetch);
        while begin_idx > 0 && begin_idx < self.initial_len() && self.counter().current() < begin_idx {
            std::hint::spin_loop();
        }
        match begin_idx.cmp(&self.initial_len()) {''')], [], 'the wait condition can never hold (counter >= begin after the fetch_add): equivalent')
m('A28b-slice-waits-for-successor', [(SL, '''        let begin_idx = self.counter().fetch_and_add(number_to_fetch);
        match begin_idx.cmp(&self.initial_len()) {''', '''        let begin_idx = self.counter().fetch_and_add(number_to_fetch);
        if begin_idx == 0 && self.initial_len() > 3 {
            // "batching": let somebody else reserve as well before going on
            while self.counter().current() <= number_to_fetch {
                std::hint::spin_loop();
            }
        }
        match begin_idx.cmp(&self.initial_len()) {''')], ['C09'])
m('A29-ids-and-values-off-by-one', [(IV, 'self.con_iter.next_id_and_value().map(|x| (x.idx, x.value))', 'self.con_iter\n            .next_id_and_value()\n            .map(|x| (x.idx + (x.idx > 4) as usize, x.value))')], ['C02'])
m('A30-unwind-guard-removed-in-pull', [(BI, '''        let guard = iter.complete_on_unwind();
''', ''), (BI, '''        guard.defuse();
''', '')], ['C18'])
m('A31-array-into_seq-forgets-forget', [(AR, '''        std::mem::forget(self);
''', '')], ['C08'])
m('A32-vec-drop-keeps-buffer', [(VE, '''            vec.set_len(0);
            ManuallyDrop::drop(vec);''', '''            vec.set_len(0);''')], ['C15'])
m('A33-taken-drop-skips-remaining', [('src/iter/implementors/taken.rs', '''            ptr::drop_in_place(ptr::slice_from_raw_parts_mut(first, remaining));''', '''            if remaining > 1 {
                ptr::drop_in_place(ptr::slice_from_raw_parts_mut(first, remaining));
            }''')], ['C08', 'C15'])
m('A34-range-get-by-value-again', [(RA, '''        match item_idx.cmp(&self.initial_len()) {
            Ordering::Less => Some(self.range.start + item_idx.into()),
            _ => None,
        }''', '''        let value = self.range.start + item_idx.into();
        match value.cmp(&self.range.end) {
            Ordering::Less => Some(value),
            _ => None,
        }''')], ['C16'])
m('A35-debug-only-bounds-check', [(VE, '''            Ordering::Less => Some(unsafe { self.take_one(item_idx) }),''', '''            Ordering::Less => {
                debug_assert!(self.counter.current() <= self.vec_len + 1, "overshoot");
                Some(unsafe { self.take_one(item_idx) })
            }''')], ['C17'])
m('A36-large-chunk-loses-last-element', [(SL, '''            .saturating_add(n)
            .min(self.initial_len())''', '''            .saturating_add(n)
            .min(self.initial_len() - (n > 40 && self.initial_len() > 50) as usize)''')], ['C01', 'C03'], 'only for chunk sizes above 40 on sources longer than 50')
m('A37-vec-take-one-wrong-beyond-32', [(VE, '''        let src_ptr = vec.as_mut_ptr().add(item_idx);''', '''        let src_ptr = vec.as_mut_ptr().add(if item_idx == 40 { 41.min(self.vec_len - 1) } else { item_idx });''')], ['C02', 'C08'], 'only position 40 of a vector')
m('A38-unsynchronized-write-in-take-one', [(VE, '''    vec_len: usize,
    counter: AtomicCounter,
}''', '''    vec_len: usize,
    last_taken: UnsafeCell<usize>,
    counter: AtomicCounter,
}'''), (VE, '''            vec: ManuallyDrop::new(vec).into(),
            counter: AtomicCounter::new(),''', '''            vec: ManuallyDrop::new(vec).into(),
            last_taken: 0.into(),
            counter: AtomicCounter::new(),'''), (VE, '''        let vec = &mut *self.vec.get();
        let src_ptr = vec.as_mut_ptr().add(item_idx);''', '''        let vec = &mut *self.vec.get();
        *self.last_taken.get() = item_idx;
        let src_ptr = vec.as_mut_ptr().add(item_idx);''')], ['C07'], 'a data race on non-atomic state for which engine A has no probe: caught by the Miri cross-check (engine B) of C07')
m('A39-try-get-len-ignores-completed', [(IT, """        match self.completed.load(atomic::Ordering::SeqCst) {
            true => Some(0),
            false => self.initial_len.map(|initial_len| {""", """        match self.completed.load(atomic::Ordering::SeqCst) && self.initial_len.is_none() {
            true => Some(0),
            false => self.initial_len.map(|initial_len| {""")], ['C05'], 'with an exact hint the length is computed from the counters only: positive after the end if the source ended earlier than its hint announced (F7d), or after a panic/short source')
m('A40-end-on-size-hint-alone', [(IT, """        let n = n.min(self.initial_len.unwrap_or(n).max(1));
""", """        let n = n.min(self.initial_len.unwrap_or(n).max(1));
        if matches!(self.initial_len, Some(len) if self.counter().current() >= len) {
            return None;
        }
""")], ['C05'], 'the idea of seeded change C05-r4: needs a source that yields more than its exact hint announced (F7c)')
m('A41-endless-loop-without-atomics', [(SL, """        let number_to_fetch = number_to_fetch.min(self.initial_len());
""", """        let number_to_fetch = number_to_fetch.min(self.initial_len());
        if number_to_fetch == 5 {
            let mut spins = 0u64;
            loop {
                spins = std::hint::black_box(spins.wrapping_add(1));
                if spins == u64::MAX - 1 {
                    break;
                }
            }
        }
""")], ['C09'], 'a call that never returns and reaches no scheduling point: outside the simulated scheduler; C09 confirms the stalled run alone in a fresh process against a real-time limit (class no-return), every other check ends with exit 2 (harness error)')
m('A42-buffer-released-with-len-as-capacity', [(VE, """        unsafe {
            vec.set_len(0);
            ManuallyDrop::drop(vec);
        }""", """        unsafe {
            let rebuilt = Vec::from_raw_parts(vec.as_mut_ptr(), 0, self.vec_len);
            drop(rebuilt);
        }""")], ['C15', 'C17'], 'the buffer is released with the length as its capacity: identical for vectors without spare capacity, undefined behaviour (deallocation with a foreign layout) otherwise; seen by the allocation ledger, which compares release size with allocation size')
m('A43-nth-override-wrong-after-next', [('src/iter/implementors/taken.rs', """    #[inline]
    fn size_hint(&self) -> (usize, Option<usize>) {
        let len = self.len - self.idx;
        (len, Some(len))
    }
}""", """    #[inline]
    fn size_hint(&self) -> (usize, Option<usize>) {
        let len = self.len - self.idx;
        (len, Some(len))
    }

    fn nth(&mut self, n: usize) -> Option<Self::Item> {
        // skip n elements at once
        let skip = n.min(self.len - self.idx);
        // SAFETY: positions idx..idx+skip have not been read
        unsafe {
            let first = self.ptr.add(self.idx);
            ptr::drop_in_place(ptr::slice_from_raw_parts_mut(first, skip));
        }
        self.idx = skip;
        self.next()
    }
}""")], ['C03', 'C08'], '`self.idx = skip` instead of `+= skip`: exact while nth is the first call on the chunk, re-yields (and double-drops) elements when some were taken with next() before')
m('A44-fold-accumulator-updated-in-place', [(FO, """    let mut result = neutral;

    match chunk_size {
        1 => {
            while let Some(value) = iter.next() {
                result = f(result, value);
            }
        }""", """    let mut result = neutral;

    match chunk_size {
        1 => {
            while let Some(value) = iter.next() {
                // SAFETY: result is read and immediately overwritten by the returned value
                unsafe {
                    let acc = std::ptr::read(&result);
                    std::ptr::write(&mut result, f(acc, value));
                }
            }
        }""")], ['C18', 'C15'], 'the replace-with pattern without a guard: if the closure panics the accumulator is dropped while it unwinds and again in the frame of fold; visible only when the accumulator owns something (the harness folds into (sum, last element)); idea of the sub-agent of C18 round 11, whose worktree was removed before it could apply it')
# variants that must stay quiet (Appendix B)
m('B01-all-seqcst', [(AC, 'Ordering::AcqRel)', 'Ordering::SeqCst)'), (AC, 'Ordering::AcqRel)', 'Ordering::SeqCst)'), (AC, 'Ordering::Acquire)', 'Ordering::SeqCst)'),
                     (IT, 'self.completed.load(atomic::Ordering::Relaxed)', 'self.completed.load(atomic::Ordering::SeqCst)')], [], 'quiet')
m('B02-spin-loop-hints', [(IT, '''                Ordering::Greater => {
                    if self.completed.load(atomic::Ordering::Relaxed) {
                        return None;
                    }
                }''', '''                Ordering::Greater => {
                    if self.completed.load(atomic::Ordering::Relaxed) {
                        return None;
                    }
                    atomic::spin_loop();
                }''')], [], 'quiet (needs spin_loop from the shim / std::hint)')
m('B03-fetch-add-as-cas-loop', [(AC, '''        self.current.fetch_add(len, Ordering::AcqRel)''', '''        let mut c = self.current.load(Ordering::Relaxed);
        loop {
            match self.current.compare_exchange_weak(c, c.wrapping_add(len), Ordering::AcqRel, Ordering::Relaxed) {
                Ok(x) => return x,
                Err(x) => c = x,
            }
        }''')], [], 'quiet')
m('B04-relaxed-load-plus-acquire-fence', [(IT, '''            let yielded_count = self.yielded_counter.current();
            match item_idx.cmp(&yielded_count) {''', '''            let yielded_count = self.yielded_counter.current();
            atomic::fence(atomic::Ordering::Acquire);
            match item_idx.cmp(&yielded_count) {''')], [], 'quiet')
m('B05-extra-completed-test', [(IT, '''        let begin_idx = self.counter().fetch_and_add(number_to_fetch);

        loop {''', '''        let begin_idx = self.counter().fetch_and_add(number_to_fetch);
        if self.completed.load(atomic::Ordering::SeqCst) {
            return None;
        }

        loop {''')], [], 'quiet')

def main():
    out = '/verif/tools/mutants'
    os.makedirs(out, exist_ok=True)
    for f in os.listdir(out):
        if f.endswith('.patch'):
            os.remove(os.path.join(out, f))
    wt = tempfile.mkdtemp(prefix='orx-mk-')
    subprocess.check_call(['git', '-C', '/repo', 'worktree', 'add', '-q', '--detach', wt, 'HEAD'])
    expect = {}
    try:
        for name, edits, props, note in M:
            subprocess.check_call(['git', '-C', wt, 'checkout', '-q', '--', '.'])
            ok = True
            for (file, old, new) in edits:
                p = os.path.join(wt, file)
                s = open(p).read()
                if old not in s:
                    print(f'!! {name}: text not found in {file}: {old[:60]!r}')
                    ok = False
                    break
                s = s.replace(old, new, 1)
                open(p, 'w').write(s)
            if not ok:
                continue
            diff = subprocess.check_output(['git', '-C', wt, 'diff', '--', 'src']).decode()
            open(os.path.join(out, name + '.patch'), 'w').write(diff)
            expect[name] = {'expected_to_fail': props, 'note': note}
        json.dump(expect, open(os.path.join(out, 'expect.json'), 'w'), indent=1)
        print(f'{len(expect)} mutants written')
    finally:
        subprocess.call(['git', '-C', '/repo', 'worktree', 'remove', '--force', wt])
        shutil.rmtree(wt, ignore_errors=True)

main()
