#!/bin/bash
# tools/confirm_seed.sh <seed-name> <agent-worktree>
# Independently confirms a seeded change produced by a sub-agent, in a fresh scratch worktree of
# /repo: (1) demo passes on the unchanged tree, (2) patch applies and compiles, (3) demo fails with
# the change, (4) the pinned suite still passes with the change. On success stores it under
# /verif/seeded/<seed-name>/ (patch.diff, demo/, meta.json + confirmation.json).
set -u
NAME="$1"; SRC="$2"
WT=$(mktemp -d /tmp/orx-confirm-XXXXXX)
git -C /repo worktree add -q --detach "$WT" HEAD || exit 2
cleanup() { git -C /repo worktree remove --force "$WT" >/dev/null 2>&1; rm -rf "$WT"; }
trap cleanup EXIT
export CARGO_NET_OFFLINE=true CARGO_TARGET_DIR="$WT/target"
DEMO=$(ls "$SRC"/seed/demo/*.rs | head -1)
DEMO_NAME=$(basename "$DEMO" .rs)
META="$SRC/seed/meta.json"
KIND=tests; grep -q '"demo_cmd".*--example' "$META" 2>/dev/null && KIND=examples
mkdir -p "$WT/$KIND"; cp "$DEMO" "$WT/$KIND/"
EXTRA_FLAGS=""; grep -q 'orx_concurrent_iter_verif' "$META" 2>/dev/null && EXTRA_FLAGS='--cfg orx_concurrent_iter_verif'
run_demo() {
  if [ "$KIND" = tests ]; then (cd "$WT" && RUSTFLAGS="$EXTRA_FLAGS" timeout 600 cargo test --offline --test "$DEMO_NAME" >"$WT/demo.log" 2>&1)
  else (cd "$WT" && RUSTFLAGS="$EXTRA_FLAGS" timeout 600 cargo run --offline --example "$DEMO_NAME" >"$WT/demo.log" 2>&1); fi
}
run_demo; RC_WITHOUT=$?
if ! git -C "$WT" apply "$SRC/seed/patch.diff"; then echo "CONFIRM $NAME: patch does not apply"; exit 1; fi
run_demo; RC_WITH=$?
tail -5 "$WT/demo.log" | cut -c1-200
# existing suite with the change (the demo file removed so that only the pinned suite runs)
rm -f "$WT/$KIND/$DEMO_NAME.rs"
(cd "$WT" && unset RUSTFLAGS && cargo nextest run --workspace --no-fail-fast --tool-config-file pb:/verif/tools/nextest.toml --profile pb --test-threads 8 --offline >/dev/null 2>&1)
SUITE=$(python3 - "$WT/target/nextest/pb/junit.xml" <<'PY'
import json,sys
import xml.etree.ElementTree as ET
want=set(json.load(open('/root/.vp/BASELINE.json'))['stable_pass'])
passed=set()
for suite in ET.parse(sys.argv[1]).getroot().iter('testsuite'):
    for tc in suite.iter('testcase'):
        if tc.find('failure') is None and tc.find('error') is None:
            passed.add(suite.get('name')+'::'+tc.get('name'))
print(f"{len(want&passed)}/{len(want)}")
PY
)
(cd "$WT" && timeout 900 cargo test --offline --doc >"$WT/doc.log" 2>&1); RC_DOC=$?
echo "CONFIRM $NAME: demo without change rc=$RC_WITHOUT, with change rc=$RC_WITH, pinned suite with change $SUITE, doc tests rc=$RC_DOC"
if [ $RC_WITHOUT -eq 0 ] && [ $RC_WITH -ne 0 ] && [ "$SUITE" = "658/658" ] && [ $RC_DOC -eq 0 ]; then
  D=/verif/seeded/$NAME; mkdir -p "$D/demo"
  cp "$SRC/seed/patch.diff" "$D/patch.diff"; cp "$SRC"/seed/demo/* "$D/demo/"; cp "$META" "$D/meta.json"
  cat > "$D/confirmation.json" <<JSON
{"confirmed_by": "tools/confirm_seed.sh in a fresh scratch worktree of /repo HEAD $(git -C /repo rev-parse --short HEAD)",
 "demo_passes_without_change": true, "demo_fails_with_change": true,
 "pinned_suite_with_change": "$SUITE", "doc_tests_with_change": "pass"}
JSON
  echo "CONFIRM $NAME: stored in $D"
else
  echo "CONFIRM $NAME: NOT confirmed"; exit 1
fi
