#!/usr/bin/env python3
"""Generates /verif/MANIFEST.json from the table below (single source of truth for the interface)."""
import json, subprocess, sys

HOOK_COMMITS = ["2da8d59"]
FIX_NOTE = "fix: commits in /repo (each found by a check, see known_findings.json and DESIGN.md 12.1): " + ", ".join(
    l.split()[0] for l in subprocess.check_output(["git", "-C", "/repo", "log", "--format=%h %s"]).decode().splitlines() if " fix:" in " " + l.split(" ", 1)[1][:5] or l.split(" ", 1)[1].startswith("fix:"))

COMMON_NOTE = ("Trusted base: the simulator in /verif/sim (baton scheduler, spin-loop-to-blocked rule, "
               "vector clocks), the harness-side probes/element types, rustc/std. Sampling, not enumeration: "
               "mostly len <= 12 and <= 4 pulling threads (a few runs up to 2141 elements; thorough tier up to 24 elements and 6 threads), seeded schedules; values are SC interleavings plus bounded "
               "staleness of relaxed/acquire loads; happens-before is computed from the orderings the crate passes "
               "to the atomic shim (cfg orx_concurrent_iter_verif).")

# id -> (claimed?, level, technique, level text, design ref, not-applicable/unclaimed reason)
P = {
 "C01": (True, "exploration", "deterministic simulation: seeded schedules over the real crate, exactly-once oracle over the recorded delivery history",
         "Every simulated run drives the real iterator (all 14 source kinds/adaptors) from 1-4 virtual threads with a random mix of all pulling methods, each ending in a drain; the oracle requires the multiset of delivered positions to equal the source exactly. Faults: preemption at every atomic step, chunk abandonment, stale relaxed loads, size-hint flavours. Evidence for all interleavings is by sampling.", "8/C01"),
 "C02": (True, "exploration", "deterministic simulation: reported index vs. element identity/address on every delivery",
         "Same engine; every (index, element) pair ever returned (Next::idx, chunk begin+offset, ids_and_values, enumerate_for_each) is compared with the element's identity, payload and, for references, its address in the source.", "8/C02"),
 "C03": (True, "exploration", "deterministic simulation: per-chunk contract oracle under chunk-heavy workloads with abandonment",
         "Chunk-heavy workloads (one-shot and buffered, sizes around the remaining length, partially consumed chunks) with racing single pulls; each chunk is checked for non-emptiness, bound, consecutiveness, announced length == yielded count, len() countdown, and 'short only at the end'.", "8/C03"),
 "C04": (True, "exploration", "deterministic simulation + linearizability check of the recorded history against a sequential cursor model",
         "Invoke/return of every call is stamped with the simulator's global event number; the history (<= 60 calls) is checked for linearizability against a sequential cursor (Wing-Gong search with memoisation). Single-threaded runs reduce to call-by-call equality with the model.", "8/C04"),
 "C05": (True, "exploration", "deterministic simulation: real-time order oracle 'nothing after an end report'",
         "Drains continue 1-24 pulls past the first end report on every thread, by every method; any delivery or positive length invoked after an end report returned is a violation.", "8/C05"),
 "C06": (True, "exploration", "deterministic simulation with skip_to_end injected at arbitrary points; real-time + linearizability oracles",
         "skip_to_end is injected anywhere (before any pull, mid-way, after the end, concurrently) and followed by enough pulls to pass the counter's wrap-around distance; pulls invoked after a skip returned must report the end, has_more must be No, no duplicate/out-of-order/wrong-index delivery on the whole history.", "8/C06"),
 "C07": (True, "exploration", "deterministic simulation with a probe iterator: mutual exclusion + vector-clock happens-before from the orderings the code uses",
         "The wrapped iterator is a harness probe with a scheduling point inside next(); the simulator checks that no two threads are inside at once and that consecutive uses are ordered by C11 happens-before computed from the Ordering arguments the crate passes (not from x86 behaviour).", "8/C07"),
 "C08": (True, "exploration", "deterministic simulation with a drop/move ledger over consuming sources and every terminal action",
         "Consuming kinds (Vec, array, owning iterator) with destructor-counting elements under all histories (partial chunks, skip, stop, into_seq_iter(take m), drop); after everything is dropped each element must have been destroyed exactly once.", "8/C08"),
 "C09": (True, "exploration", "deterministic simulation: spin loops become a Blocked state, deadlock/livelock is a scheduler verdict; freeze adversary on known-size sources",
         "The scheduler turns the crate's spin loops into a Blocked state (two-identical-periods rule + probation), so 'waits forever' is a deadlock verdict rather than a timeout. Known-size kinds additionally run with one thread frozen at an arbitrary step: no other call may ever enter a wait loop.", "8/C09"),
 "C10": (True, "exploration", "deterministic simulation: remainder of into_seq_iter vs. complement of the delivered set",
         "Arbitrary sequential and concurrent-then-joined prefixes (incl. overshoot, exact exhaustion, nothing pulled, skip) followed by into_seq_iter; the collected positions must be exactly the undelivered positions in order (an ordered suffix of them after a skip).", "8/C10"),
 "C11": (True, "exploration", "deterministic simulation: dense length queries checked against the model at quiescence, for monotonicity and for definitiveness of zero",
         "try_get_len/has_more are interleaved densely with pulls and skips; quiescent answers must equal the model, answers ordered in real time must not increase, and after an answer of 0/No no later pull may deliver.", "8/C11"),
 "C12": (True, "exploration", "deterministic simulation: closure-invocation ledger for for_each/enumerate_for_each/fold under seeded schedules",
         "1-4 threads call for_each/enumerate_for_each/fold with mixed chunk sizes (1 and >1), optionally racing direct pulls; closure arguments over all threads must cover the source exactly once with correct indices, the iterator must be exhausted when a call returns, and fold results must equal the fold of what each call visited.", "8/C12"),
 "C13": (True, "exploration", "deterministic simulation, twin runs: the adaptor and its underlying reference-yielding iterator execute the same workload under the same call-granular seeded schedule; transcripts compared operation by operation",
         "Each run executes a generated workload (all pulling methods, queries, skip, stop, partial chunks, into_seq_iter, 1-4 threads) once on X.cloned()/X.copied() and once on an identical X, with preemption only between API calls so that both twins see the same total order of calls; every result (indices, element identities, chunk boundaries, announced lengths, ends, lengths, skip behaviour, remainder) must be identical, the number of clones must equal the number of elements handed out, and the source must be untouched. Fine-grained interleavings of the adaptors themselves are covered because the adaptor kinds are source kinds of C01-C12.", "8/C13"),
 "C14": (False, "", "", "", "8/C14", "compile-time accept/reject verdicts on client programs have no schedule, fault, time or history dimension; nothing for a simulator to execute (see DESIGN.md 8/C14)"),
 "C15": (True, "exploration", "deterministic simulation with a counting global allocator: scoped allocation ledger must be empty after every run",
         "The simulator binary installs a counting #[global_allocator]; every block allocated while building the consumed source or inside a call into the crate is entered in a ledger, every deallocation removes its block. After a run (consuming kinds, element payloads of 0/8/24/4096 heap bytes, all histories incl. partial chunks, skip, stop, into_seq_iter(take m), concurrent use) has dropped everything, the ledger must be empty; since consecutive runs share the process, an empty ledger after each run also means no growth under repetition.", "8/C15"),
 "C16": (True, "fault_enumeration", "deterministic simulation over a completely enumerated boundary grid (range bounds x chunk sizes x follow-up operations), each point sequentially and under sampled two-thread schedules, in two builds; oracle = cursor model computed in 128-bit arithmetic",
         "The input grid (9x9 range bounds incl. empty/inverted ranges and bounds at usize::MAX, chunk sizes {0,1,len-1,len,len+1,MAX/2,MAX-7,MAX} as one-shot and buffered pulls, zero-size for_each/fold/buffered_iter, each followed by further pulls, skip_to_end, queries and into_seq_iter, on every source kind) is enumerated completely; each grid point runs sequentially and under sampled 2-thread schedules, in a build without and a build with overflow checks/debug assertions, and the transcripts of the two builds are compared. Results must equal a cursor model that cannot wrap; documented zero-size panics must occur; nothing else may panic.", "8/C16"),
 "C17": (True, "exploration", "deterministic simulation executed by two differently compiled simulator binaries on identical seeds; transcripts and event-log hashes compared run by run",
         "Determinism makes two binaries comparable: the simulator (and with it the crate, a path dependency) is built once without and once with debug assertions + overflow checks; both execute the same run indices and the parent compares per-run event-log hash and transcript hash (results, indices, lens, ledger, allocator summary, panic messages); a build that aborts is a violation.", "8/C17"),
 "C18": (True, "fault_enumeration", "deterministic simulation with panic injection at every crash point k (wrapped next / clone / closure) under seeded schedules",
         "For len <= 6 the panic is injected at the k-th call of the wrapped iterator's next, of Clone, or of the user closure, for every k in 0..=len+1 (drawn uniformly, so every crash point of every site is visited thousands of times), with 2-3 threads and sampled schedules. Others must return (no deadlock verdict), no duplicate delivery, drop ledger exact.", "8/C18"),
 "C19": (True, "exploration", "deterministic simulation with several iterators (original, clones taken at arbitrary points, fresh ones) over one borrowed collection; per-iterator cursor model + address identity",
         "2-3 threads operate on the original iterator and, from arbitrary points of their operation lists, on clones of it (taken while other threads keep pulling from the original) or on fresh iterators over the same slice/Vec/array/range. Each iterator's own history must be linearizable against a cursor of its own (a clone starting at a position the original had between the clone call's invoke and return), delivered references must point at the collection's elements, and the collection must be unmodified and undropped afterwards.", "8/C19"),
}

def main():
    claimed = json.load(open('/verif/tools/claimed.json')) if len(sys.argv) > 1 and sys.argv[1] == '--from-file' else None
    checks, na = [], []
    for pid in sorted(P):
        ok, level, tech, text, ref, *reason = P[pid]
        if claimed is not None:
            ok = ok and pid in claimed
        if not ok:
            na.append({"property_id": pid, "reason": reason[0] if reason else "check not yet validated on the unchanged tree"})
            continue
        checks.append({
            "property_id": pid,
            "quick_cmd": f"./check {pid} quick",
            "thorough_cmd": f"./check {pid} thorough",
            "evidence_file": f"/verif/evidence/{pid}.json",
            "replay_cmd_template": f"./check {pid} --replay {{path}}",
            "engine": "orxsim",
            "level_claimed": {"category": level, "text": text, "design_ref": f"DESIGN.md section {ref}"},
            "level_note": COMMON_NOTE,
            "technique": tech,
        })
    m = {
        "version": 1,
        "setup_cmd": "cd /verif/sim && CARGO_NET_OFFLINE=true cargo build --offline --release && CARGO_NET_OFFLINE=true cargo build --offline --profile checked && (cd /verif/miri && MIRIFLAGS=-Zmiri-tree-borrows cargo +nightly miri run --offline -- vec_partial >/dev/null 2>&1 || true)",
        "hooks": {
            "guard": "--cfg orx_concurrent_iter_verif",
            "enable": "rustflags in /verif/sim/.cargo/config.toml: the simulator crate depends on /repo by path and is built with --cfg orx_concurrent_iter_verif, which swaps the crate's two `use std::sync::atomic` declarations for src/verif_hooks.rs",
            "baseline_off_cmd": "/verif/tools/baseline_off.sh",
            "source_commits": HOOK_COMMITS,
            "add_only": True,
        },
        "engines": [
            {"name": "miri-cross-check", "path": "/verif/miri", "serves_properties": ["C07", "C08", "C15"],
             "kind_free_text": "auxiliary, thorough tier only: plain std::thread scenarios over the real crate under cargo +nightly miri (-Zmiri-many-seeds, tree borrows): Miri's own seeded scheduler, weak-memory emulation, data-race / use-after-free / double-free / leak detection as an independent cross-check of engine A's vector clocks and ledgers; never the sole basis of a claim"},
            {"name": "orxsim", "path": "/verif/sim", "serves_properties": [c["property_id"] for c in checks],
             "kind_free_text": "deterministic simulator: real OS threads run one at a time under a seeded baton scheduler at every atomic operation of the real crate; spin loops modelled as Blocked; vector-clock happens-before; fault injection (preemption, freeze, panic, abandonment, skip, stale loads); history oracles incl. linearizability; replay files + minimisation"},
        ],
        "checks": checks,
        "not_applicable": na,
        "notes": FIX_NOTE + ". See DESIGN.md. Violations are reported as `VIOLATION property=<id> replay=<path>`; known findings (known_findings.json) as `KNOWN-FINDING:` lines. VERIF_SEED selects the base seed (default 1); VERIF_RUNS / VERIF_WORKERS override the budget.",
    }
    json.dump(m, open('/verif/MANIFEST.json', 'w'), indent=1)
    print(f"{len(checks)} checks claimed, {len(na)} not claimed")

main()
