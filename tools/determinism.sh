#!/bin/bash
# tools/determinism.sh [runs-per-property] [props...]
# Proves determinism on a sample: every run index is executed twice (two parent invocations), with
# 14 and with 3 worker processes; the per-run event-log hashes and transcript hashes must be equal.
# Also replays a few non-failing runs in fresh processes (orxsim one) and compares their hashes.
set -u
RUNS="${1:-3000}"; shift || true
PROPS=("$@"); [ ${#PROPS[@]} -eq 0 ] && PROPS=(C01 C04 C06 C07 C08 C09 C11 C12 C13 C16 C18 C19)
OUT=$(mktemp -d /tmp/orx-det-XXXXXX); trap 'rm -rf "$OUT"' EXIT
mkdir -p "$OUT/v/evidence" "$OUT/v/replays"; cp /verif/known_findings.json "$OUT/v/"
FAIL=0
for P in "${PROPS[@]}"; do
  for W in 14 3; do
    VERIF_OUT_DIR="$OUT/v" VERIF_RUNS="$RUNS" VERIF_WORKERS="$W" VERIF_TRANSCRIPT_OUT="$OUT/$P-$W.txt" /verif/check "$P" quick >/dev/null 2>&1
  done
  A=$(wc -l < "$OUT/$P-14.txt"); B=$(wc -l < "$OUT/$P-3.txt")
  if cmp -s "$OUT/$P-14.txt" "$OUT/$P-3.txt"; then
    echo "determinism $P: $A runs, 14 workers vs 3 workers: identical event-log and transcript hashes"
  else
    D=$(diff "$OUT/$P-14.txt" "$OUT/$P-3.txt" | grep -c '^[<>]')
    echo "determinism $P: MISMATCH ($A vs $B rows, $D differing lines)"; FAIL=1
  fi
done
exit $FAIL
