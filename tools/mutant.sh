#!/bin/bash
# tools/mutant.sh <patch-file> <PROP> [<PROP>...]
# Applies a patch to a scratch worktree of /repo (outside /repo and /verif), runs the quick checks of
# the given properties against it (VERIF_REPO), prints one line per check, removes the worktree.
# Build output goes to a shared scratch target dir ($MUT_TARGET, default /tmp/orxsim-mut-target),
# which the caller removes when the session of mutation runs is over.
set -u
HERE="$(cd "$(dirname "$0")/.." && pwd)"
PATCH="$(realpath "$1")"; shift
WT=$(mktemp -d /tmp/orx-mut-XXXXXX)
export VERIF_TARGET_DIR="${MUT_TARGET:-/tmp/orxsim-mut-target}"
git -C /repo worktree add -q --detach "$WT" HEAD || exit 2
cleanup() { git -C /repo worktree remove --force "$WT" >/dev/null 2>&1; rm -rf "$WT"; }
trap cleanup EXIT
if ! git -C "$WT" apply "$PATCH"; then echo "MUTANT $(basename "$PATCH"): patch does not apply"; exit 2; fi
# evidence and replay files of mutation runs must not touch the real ones
export VERIF_DIR_OVERRIDE=1
SCR=$(mktemp -d /tmp/orx-mut-out-XXXXXX)
mkdir -p "$SCR/evidence" "$SCR/replays"
cp "$HERE/known_findings.json" "$SCR/"
for P in "$@"; do
  OUT=$(VERIF_REPO="$WT" VERIF_OUT_DIR="$SCR" VERIF_RUNS="${MUT_RUNS:-20000}" "$HERE/check" "$P" quick 2>&1)
  RC=$?
  FIRST=$(echo "$OUT" | grep -m1 "^violation" | cut -c1-260)
  echo "MUTANT $(basename "$PATCH" .patch) $P rc=$RC $(echo "$OUT" | head -1 | sed 's/.*: seed/seed/' | cut -c1-60) :: $FIRST"
done
rm -rf "$SCR"
