#!/bin/bash
# tools/finalize.sh - regenerates everything that is derived: the evidence files (every quick check,
# run in /verif against /repo itself), MANIFEST.json, the measured tables of DESIGN.md; validates the
# JSON files against their schemas. Stops at the first check that does not exit 0.
set -u
HERE="$(cd "$(dirname "$0")/.." && pwd)"
cd "$HERE" || exit 2
if [ -n "$(git -C /repo status --porcelain --untracked-files=no)" ]; then echo "/repo has uncommitted changes"; exit 2; fi
for P in $(jq -r '.[]' tools/claimed.json); do
  OUT=$(./check "$P" quick 2>&1); RC=$?
  echo "$P rc=$RC $(echo "$OUT" | grep -m1 '^check ' | sed 's/.*: seed/seed/' | cut -c1-90)"
  echo "$OUT" | grep '^VIOLATION\|^KNOWN-FINDING\|harness error' | cut -c1-160
  [ $RC -eq 0 ] || { echo "check $P did not exit 0"; exit 1; }
done
python3 tools/gen_manifest.py --from-file || exit 2
python3 tools/update_design_tables.py || exit 2
python3-vt - <<'PY' || exit 2
import json, glob, jsonschema
ms = json.load(open('/root/.vp/MANIFEST.schema.json')); jsonschema.validate(json.load(open('/verif/MANIFEST.json')), ms)
es = json.load(open('/root/.vp/EVIDENCE.schema.json'))
n = 0
for f in sorted(glob.glob('/verif/evidence/*.json')):
    jsonschema.validate(json.load(open(f)), es); n += 1
print(f"MANIFEST.json and {n} evidence files are valid")
PY
git status --short | head -30
