#!/usr/bin/env python3
"""Prints the markdown tables of DESIGN.md Appendix A (planned mutants) and Appendix C (seeded changes
from sub-agents) from the measured results (tools/mutants/results.json, seeded/*/detection.json)."""
import json, glob, os, sys

def appendix_a():
    exp = json.load(open('/verif/tools/mutants/expect.json'))
    res = json.load(open('/verif/tools/mutants/results.json'))
    print('| mutant | expected | caught by | verdict |')
    print('|---|---|---|---|')
    for name in sorted(exp):
        e = exp[name]
        r = res.get(name, {})
        caught = sorted(p for p, v in r.items() if v.get('rc') == 1)
        errors = sorted(p for p, v in r.items() if v.get('rc') == 2)
        ran = sorted(r)
        if name.startswith('B'):
            verdict = f'quiet on all {len(ran)} checks' if not caught and not errors else 'ALARM'
        elif caught:
            verdict = 'caught'
        elif not e['expected_to_fail'] or 'equivalent' in e.get('note', ''):
            verdict = 'survives (equivalent): ' + e.get('note', '')
        else:
            verdict = 'survives: ' + e.get('note', '')
        if errors:
            verdict += f' (harness error in {errors})'
        print(f"| {name} | {' '.join(e['expected_to_fail']) or '—'} | {' '.join(caught) or '—'} | {verdict} |")

def appendix_c():
    own_final = {}
    if os.path.exists('/verif/seeded_own_property_detection.json'):
        own_final = json.load(open('/verif/seeded_own_property_detection.json'))
    print('| seeded change | target | what it needs to manifest | caught by |')
    print('|---|---|---|---|')
    for d in sorted(glob.glob('/verif/seeded/*')):
        if not os.path.isdir(d):
            continue
        name = os.path.basename(d)
        meta = json.load(open(os.path.join(d, 'meta.json')))
        det = {}
        if os.path.exists(os.path.join(d, 'detection.json')):
            det = json.load(open(os.path.join(d, 'detection.json')))['results']
        caught = sorted(p for p, v in det.items() if v.get('rc') == 1)
        errors = sorted(p for p, v in det.items() if v.get('rc') == 2)
        needs = str(meta.get('needs_to_manifest', '')).replace('\n', ' ').replace('|', '/')
        if len(needs) > 230:
            needs = needs[:227] + '...'
        files = ', '.join(meta.get('files_changed', []))
        tgt = meta.get('property', name[:3])
        given = meta.get('given_property')
        if name in own_final and own_final[name]['by_base_seed']:
            rcs = own_final[name]['by_base_seed']
            own = 'yes' if all(rc == 1 for rc in rcs.values()) else 'NO'
            own += ' (final commit, base seed ' + ','.join(sorted(rcs)) + ')'
        else:
            own = 'yes' if tgt in caught else 'NO'
        if tgt not in caught and own.startswith('yes'):
            caught = sorted(set(caught) | {tgt})
        label = tgt if not given else f"{tgt} (given to the sub-agent as {given})"
        note = meta.get('detection_note')
        print(f"| {name} ({files}) | {label} | {needs} | {' '.join(caught) or '—'}{' (harness error, exit 2: '+' '.join(errors)+')' if errors else ''}; by its own property's check: {own}{'; ' + note if note else ''} |")

if __name__ == '__main__':
    which = sys.argv[1] if len(sys.argv) > 1 else 'both'
    if which in ('a', 'both'):
        appendix_a()
        print()
    if which in ('c', 'both'):
        appendix_c()
