#!/bin/bash
# Runs the repository's pinned test suite with the verification guard OFF (no RUSTFLAGS) and
# compares the set of passing tests with /root/.vp/BASELINE.json (stable_pass).
# exit 0 = every stable_pass test passed.
set -u
REPO=${VERIF_REPO:-/repo}
cd "$REPO" || exit 2
export CARGO_NET_OFFLINE=true
unset RUSTFLAGS CARGO_ENCODED_RUSTFLAGS
if [ -f /w/lib/nextest.toml ]; then CFG=/w/lib/nextest.toml; else CFG=/verif/tools/nextest.toml; fi
cargo nextest run --workspace --no-fail-fast --tool-config-file pb:$CFG --profile pb \
   --test-threads 8 --offline > /dev/null 2>&1
python3 - "$REPO/target/nextest/pb/junit.xml" <<'PY'
import json,sys
import xml.etree.ElementTree as ET
want=set(json.load(open('/root/.vp/BASELINE.json'))['stable_pass'])
passed=set()
for suite in ET.parse(sys.argv[1]).getroot().iter('testsuite'):
    for tc in suite.iter('testcase'):
        if tc.find('failure') is None and tc.find('error') is None:
            passed.add(suite.get('name')+'::'+tc.get('name'))
missing=sorted(want-passed)
print(f"baseline_off: {len(want)-len(missing)}/{len(want)} stable tests passed; {len(passed)} passed in total")
if missing:
    print("missing:",missing[:20]); sys.exit(1)
PY
