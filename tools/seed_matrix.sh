#!/bin/bash
# tools/seed_matrix.sh [seed-name...]  - runs every (or the given) seeded change against all checks
HERE="$(cd "$(dirname "$0")/.." && pwd)"
NAMES=("$@"); [ ${#NAMES[@]} -eq 0 ] && NAMES=($(ls "$HERE/seeded"))
for N in "${NAMES[@]}"; do "$HERE/tools/run_seed.sh" "$N"; done
rm -rf /tmp/orxsim-seed-target
