//! Replay files and minimisation.

use crate::gen;
use crate::oracle::Finding;
use crate::rng::mix;
use crate::sim::Strategy;
use crate::work::*;
use serde::{Deserialize, Serialize};
use std::time::{Duration, Instant};

#[derive(Clone, Debug, Serialize, Deserialize)]
pub struct ReplayFile {
    pub property: String,
    pub base_seed: u64,
    pub run_index: u64,
    pub class: String,
    pub message: String,
    pub event_hash: u64,
    pub minimised: bool,
    pub original_ops: usize,
    pub original_deviations: usize,
    pub cfg: RunCfg,
    pub trace: Vec<String>,
}

pub fn matches(f: &Finding, prop: &str) -> bool {
    f.prop == prop || f.prop == "*"
}

/// Executes a configuration and returns the first finding of `prop` (optionally of a given class).
pub fn run_once(
    cfg: &RunCfg,
    prop: &str,
    class: Option<&str>,
    run_no: u32,
) -> (Option<Finding>, RunRecord) {
    let (rec, findings, _) = crate::judge::run_and_judge(cfg, run_no);
    let hit = findings
        .into_iter()
        .find(|f| matches(f, prop) && class.map(|c| f.class == c).unwrap_or(true));
    (hit, rec)
}

/// Turns a failing run into replay form: the schedule becomes an explicit deviation list.
pub fn to_replay_form(cfg: &RunCfg, rec: &RunRecord) -> RunCfg {
    let mut c = cfg.clone();
    c.sim.strategy = Strategy::Replay;
    c.sim.deviations = rec.sim.deviations.clone();
    c
}

fn total_ops(cfg: &RunCfg) -> usize {
    cfg.pre.len() + cfg.threads.iter().map(|t| t.len()).sum::<usize>()
}

struct Shrinker<'a> {
    prop: &'a str,
    class: &'a str,
    deadline: Instant,
    run_no: u32,
    tries: u32,
}

impl<'a> Shrinker<'a> {
    fn expired(&self) -> bool {
        Instant::now() > self.deadline
    }

    /// Does this (replay-form) configuration still fail in the same way?
    fn fails_exact(&mut self, cfg: &RunCfg) -> Option<(Finding, RunRecord)> {
        self.run_no = self.run_no.wrapping_add(1);
        self.tries += 1;
        let (hit, rec) = run_once(cfg, self.prop, Some(self.class), self.run_no);
        hit.map(|h| (h, rec))
    }

    /// Searches fresh schedules for a changed workload; returns it in replay form if one fails.
    fn fails_some_schedule(&mut self, cfg: &RunCfg, attempts: u32) -> Option<RunCfg> {
        // first: the old deviation list (falls back to the default policy where it does not apply)
        if let Some((_, rec)) = self.fails_exact(cfg) {
            return Some(to_replay_form(cfg, &rec));
        }
        let strategies = [
            Strategy::Pct(1),
            Strategy::Pct(2),
            Strategy::Uniform,
            Strategy::Sticky(80),
            Strategy::Targeted,
            Strategy::Pct(3),
        ];
        for a in 0..attempts {
            if self.expired() {
                return None;
            }
            let mut c = cfg.clone();
            c.sim.strategy = strategies[a as usize % strategies.len()];
            c.sim.deviations.clear();
            c.sim.sched_seed = mix(&[cfg.sim.sched_seed, a as u64, 0x5417]);
            if let Some((_, rec)) = self.fails_exact(&c) {
                return Some(to_replay_form(&c, &rec));
            }
        }
        None
    }
}

fn drop_thread(cfg: &RunCfg, t: usize) -> Option<RunCfg> {
    if cfg.threads.len() <= 1 {
        return None;
    }
    let mut c = cfg.clone();
    c.threads.remove(t);
    c.sim.nthreads = c.threads.len();
    if let Some(f) = c.sim.freeze {
        if f.tid == t {
            c.sim.freeze = None;
        } else if f.tid > t {
            let mut f2 = f;
            f2.tid -= 1;
            c.sim.freeze = Some(f2);
        }
    }
    Some(c)
}

/// Minimises a failing run (given in replay form). Time-boxed.
pub fn minimise(
    start: RunCfg,
    prop: &str,
    class: &str,
    budget: Duration,
    run_no: u32,
) -> (RunCfg, u32) {
    let mut sh = Shrinker {
        prop,
        class,
        deadline: Instant::now() + budget,
        run_no,
        tries: 0,
    };
    let mut best = start;
    let attempts = 40;
    let mut progress = true;
    while progress && !sh.expired() {
        progress = false;
        // 1. threads
        let mut t = 0;
        while t < best.threads.len() && !sh.expired() {
            if let Some(c) = drop_thread(&best, t) {
                if let Some(r) = sh.fails_some_schedule(&c, attempts) {
                    best = r;
                    progress = true;
                    continue;
                }
            }
            t += 1;
        }
        // 2. operations (from the end of each list)
        for which in 0..=best.threads.len() {
            let mut i = if which == 0 {
                best.pre.len()
            } else {
                best.threads[which - 1].len()
            };
            while i > 0 && !sh.expired() {
                i -= 1;
                let mut c = best.clone();
                if which == 0 {
                    c.pre.remove(i);
                } else {
                    c.threads[which - 1].remove(i);
                }
                if let Some(r) = sh.fails_some_schedule(&c, attempts) {
                    best = r;
                    progress = true;
                }
            }
        }
        // 3. simplify operations: Drain extras, partial consumption
        for which in 0..best.threads.len() {
            for i in 0..best.threads[which].len() {
                if sh.expired() {
                    break;
                }
                let op = best.threads[which][i];
                let simpler = match op {
                    Op::Drain(m, e) if e > 0 => Some(Op::Drain(m, 0)),
                    Op::Chunk(n, k) if k != usize::MAX && n <= 64 => {
                        Some(Op::Chunk(n, usize::MAX))
                    }
                    Op::BufNext(k) if k != usize::MAX => Some(Op::BufNext(usize::MAX)),
                    _ => None,
                };
                if let Some(s) = simpler {
                    let mut c = best.clone();
                    c.threads[which][i] = s;
                    if let Some(r) = sh.fails_some_schedule(&c, attempts / 2) {
                        best = r;
                        progress = true;
                    }
                }
            }
        }
        // 4. faults and terminal action
        if !sh.expired() && best.sim.stale_permille > 0 {
            let mut c = best.clone();
            c.sim.stale_permille = 0;
            if let Some(r) = sh.fails_some_schedule(&c, attempts) {
                best = r;
                progress = true;
            }
        }
        if !sh.expired() && best.sim.freeze.is_some() {
            let mut c = best.clone();
            c.sim.freeze = None;
            if let Some(r) = sh.fails_some_schedule(&c, attempts) {
                best = r;
                progress = true;
            }
        }
        if !sh.expired() && best.terminal != Terminal::Drop {
            let mut c = best.clone();
            c.terminal = Terminal::Drop;
            if let Some(r) = sh.fails_some_schedule(&c, attempts / 2) {
                best = r;
                progress = true;
            }
        }
        if !sh.expired() && best.consume_nth > 0 {
            let mut c = best.clone();
            c.consume_nth = 0;
            if let Some(r) = sh.fails_some_schedule(&c, attempts / 2) {
                best = r;
                progress = true;
            }
        }
        if !sh.expired() && best.heap_bytes > 0 {
            let mut c = best.clone();
            c.heap_bytes = 0;
            if let Some(r) = sh.fails_some_schedule(&c, attempts / 2) {
                best = r;
                progress = true;
            }
        }
        // 5. length (not for arrays: fixed set of sizes)
        if !best.kind.is_array() && best.range_end.is_none() {
            while best.len > 0 && !sh.expired() {
                let mut c = best.clone();
                c.len -= 1;
                if let Some(r) = sh.fails_some_schedule(&c, attempts / 2) {
                    best = r;
                    progress = true;
                } else {
                    break;
                }
            }
        }
    }
    // 6. schedule: try the default schedule, then drop deviations
    if !sh.expired() && !best.sim.deviations.is_empty() {
        let mut c = best.clone();
        c.sim.deviations.clear();
        if sh.fails_exact(&c).is_some() {
            best = c;
        } else {
            // delta debugging over the deviation list
            let mut chunk = (best.sim.deviations.len() / 2).max(1);
            while chunk >= 1 && !sh.expired() {
                let mut i = 0;
                let mut removed_any = false;
                while i < best.sim.deviations.len() && !sh.expired() {
                    let mut c = best.clone();
                    let end = (i + chunk).min(c.sim.deviations.len());
                    c.sim.deviations.drain(i..end);
                    if sh.fails_exact(&c).is_some() {
                        best = c;
                        removed_any = true;
                    } else {
                        i += chunk;
                    }
                }
                if chunk == 1 && !removed_any {
                    break;
                }
                if chunk > 1 {
                    chunk /= 2;
                }
            }
        }
    }
    (best, sh.tries)
}

/// Builds the replay file for a violation found in run `index`.
pub fn build(
    prop: &str,
    base_seed: u64,
    index: u64,
    cfg: &RunCfg,
    rec: &RunRecord,
    finding: &Finding,
    budget: Duration,
    run_no: u32,
) -> ReplayFile {
    let original_ops = total_ops(cfg);
    let first = to_replay_form(cfg, rec);
    let original_deviations = first.sim.deviations.len();
    // make sure the replay form reproduces before shrinking
    let (hit, _) = run_once(&first, prop, Some(&finding.class), run_no.wrapping_add(1));
    let (mut best, minimised) = if hit.is_some() {
        let (b, _) = minimise(
            first.clone(),
            prop,
            &finding.class,
            budget,
            run_no.wrapping_add(2),
        );
        (b, true)
    } else {
        (first.clone(), false)
    };
    // final run with tracing on, to embed the trace and the definitive message/hash
    best.sim.trace = true;
    let (hit, rec2) = run_once(&best, prop, Some(&finding.class), run_no.wrapping_add(3));
    let (message, class) = match hit {
        Some(h) => (h.msg, h.class),
        None => (finding.msg.clone(), finding.class.clone()),
    };
    ReplayFile {
        property: prop.to_string(),
        base_seed,
        run_index: index,
        class,
        message,
        event_hash: rec2.sim.event_hash,
        minimised,
        original_ops,
        original_deviations,
        cfg: best,
        trace: rec2.sim.trace.iter().take(400).cloned().collect(),
    }
}

/// Re-executes a replay file; returns the finding if it reproduces, plus the event hash.
pub fn replay(file: &ReplayFile) -> (Option<Finding>, u64) {
    let (hit, rec) = run_once(&file.cfg, &file.property, Some(&file.class), 1);
    (hit, rec.sim.event_hash)
}

#[allow(dead_code)]
pub fn regenerate(prop: &str, base_seed: u64, index: u64) -> RunCfg {
    gen::generate(prop, base_seed, index)
}

// ---------------------------------------------------------------------------------------------
// minimisation of violations that can only be observed from outside the process
// (process-abort, build-divergence): every trial is a child process per build

/// `trial(cfg)` must return true if the violation persists for this configuration.
pub fn minimise_external(
    start: RunCfg,
    budget: Duration,
    mut trial: impl FnMut(&RunCfg) -> bool,
) -> (RunCfg, u32) {
    let deadline = Instant::now() + budget;
    let mut best = start;
    let mut tries = 0u32;
    let mut progress = true;
    while progress && Instant::now() < deadline {
        progress = false;
        let mut t = 0;
        while t < best.threads.len() && Instant::now() < deadline {
            if let Some(c) = drop_thread(&best, t) {
                tries += 1;
                if trial(&c) {
                    best = c;
                    progress = true;
                    continue;
                }
            }
            t += 1;
        }
        for which in 0..=best.threads.len() {
            let mut i = if which == 0 {
                best.pre.len()
            } else {
                best.threads[which - 1].len()
            };
            while i > 0 && Instant::now() < deadline {
                i -= 1;
                let mut c = best.clone();
                if which == 0 {
                    c.pre.remove(i);
                } else {
                    c.threads[which - 1].remove(i);
                }
                tries += 1;
                if trial(&c) {
                    best = c;
                    progress = true;
                }
            }
        }
        if best.terminal != Terminal::Drop && Instant::now() < deadline {
            let mut c = best.clone();
            c.terminal = Terminal::Drop;
            tries += 1;
            if trial(&c) {
                best = c;
                progress = true;
            }
        }
        if best.consume_nth > 0 && Instant::now() < deadline {
            let mut c = best.clone();
            c.consume_nth = 0;
            tries += 1;
            if trial(&c) {
                best = c;
                progress = true;
            }
        }
    }
    (best, tries)
}
