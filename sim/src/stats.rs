//! Measured coverage counters of a worker; merged by the parent into the evidence file.

use crate::oracle::{Facts, Finding};
use crate::sim::{Strategy, Verdict};
use crate::work::*;
use serde::{Deserialize, Serialize};
use std::collections::BTreeMap;

#[derive(Clone, Debug, Default, Serialize, Deserialize)]
pub struct Stats {
    pub runs: u64,
    pub multi_thread_runs: u64,
    pub runs_with_cross_thread_conflict: u64,
    pub steps: u64,
    pub decisions: u64,
    pub atomic_ops: u64,
    pub calls: u64,
    pub deliveries: u64,
    pub max_preemptions: u64,
    pub steps_hist: BTreeMap<String, u64>,
    pub by_kind: BTreeMap<String, u64>,
    pub by_call_kind: BTreeMap<String, u64>,
    pub by_strategy: BTreeMap<String, u64>,
    pub by_threads: BTreeMap<String, u64>,
    pub by_len: BTreeMap<String, u64>,
    pub by_terminal: BTreeMap<String, u64>,
    /// fault kinds: how often each actually fired
    pub faults: BTreeMap<String, u64>,
    /// rare-condition probes
    pub probes: BTreeMap<String, u64>,
    /// C18: how often the panic injected at (site, k) actually fired
    #[serde(default)]
    pub crash_points_fired: BTreeMap<String, u64>,
    /// C18: configured crash points that lay beyond what the run executed (did not fire)
    #[serde(default)]
    pub crash_points_not_reached: u64,
    pub lin_checked: u64,
    pub lin_states: u64,
    pub aborted_runs: u64,
    pub other_property_observations: BTreeMap<String, u64>,
    pub other_examples: BTreeMap<String, String>,
    pub known_hits: BTreeMap<String, u32>,
    pub samples: Vec<serde_json::Value>,
}

fn bump(m: &mut BTreeMap<String, u64>, k: &str, by: u64) {
    if by > 0 {
        *m.entry(k.to_string()).or_insert(0) += by;
    }
}

impl Stats {
    pub fn record_run(&mut self, cfg: &RunCfg, rec: &RunRecord, facts: &Facts) {
        self.runs += 1;
        let s = &rec.sim.stats;
        if cfg.threads.len() >= 2 {
            self.multi_thread_runs += 1;
            if rec.sim.cross_thread_conflicts > 0 {
                self.runs_with_cross_thread_conflict += 1;
            }
        }
        self.steps += s.steps;
        self.decisions += s.decisions;
        self.atomic_ops += s.atomic_ops;
        self.calls += rec.calls.len() as u64;
        self.deliveries = self.deliveries.saturating_add(facts.n_deliveries as u64);
        self.max_preemptions = self.max_preemptions.max(s.preemptions);
        let bucket = match s.steps {
            0..=9 => "0-9",
            10..=29 => "10-29",
            30..=99 => "30-99",
            100..=299 => "100-299",
            300..=999 => "300-999",
            _ => "1000+",
        };
        bump(&mut self.steps_hist, bucket, 1);
        bump(&mut self.by_kind, &format!("{:?}", cfg.kind), 1);
        bump(&mut self.by_threads, &cfg.threads.len().to_string(), 1);
        bump(&mut self.by_len, &cfg.len.to_string(), 1);
        bump(
            &mut self.by_terminal,
            match cfg.terminal {
                Terminal::Drop => "drop",
                Terminal::IntoSeq(usize::MAX) => "into_seq_iter(all)",
                Terminal::IntoSeq(_) => "into_seq_iter(take m)",
            },
            1,
        );
        let strat = match cfg.sim.strategy {
            Strategy::Uniform => "uniform".to_string(),
            Strategy::Sticky(p) => format!("sticky({p})"),
            Strategy::Pct(d) => format!("pct({d})"),
            Strategy::Targeted => "targeted".to_string(),
            Strategy::Replay => "replay".to_string(),
        };
        bump(&mut self.by_strategy, &strat, 1);
        for c in &rec.calls {
            bump(&mut self.by_call_kind, &format!("{:?}", c.kind), 1);
        }
        // faults that fired
        bump(&mut self.faults, "F1_preemption", s.preemptions);
        bump(&mut self.faults, "F2_freeze", s.freezes);
        bump(
            &mut self.faults,
            if matches!(cfg.panic, Some((crate::work::PanicSite::Consumer, _))) {
                "F3b_caller_panics_holding_a_chunk"
            } else if matches!(cfg.panic, Some((crate::work::PanicSite::ElemDrop, _))) {
                "F3c_element_destructor_panics"
            } else {
                "F3_injected_panic"
            },
            rec.ledger.injected_panics as u64,
        );
        let partial = rec
            .calls
            .iter()
            .filter(|c| {
                matches!(&c.res, Res::Chunk { announced, items, skipped, .. } if items.len() + skipped < *announced)
            })
            .count() as u64;
        bump(&mut self.faults, "F4_chunk_abandoned", partial);
        bump(
            &mut self.faults,
            "F5_skip_to_end",
            rec.calls.iter().filter(|c| c.kind == CallKind::Skip).count() as u64,
        );
        bump(
            &mut self.faults,
            "F6_thread_stopped",
            cfg.threads
                .iter()
                .filter(|t| t.contains(&Op::Stop))
                .count() as u64,
        );
        if cfg.kind.is_iter() {
            bump(&mut self.faults, &format!("F7_hint_{:?}", cfg.hint), 1);
            if cfg.tail > 0 {
                bump(&mut self.faults, "F7b_source_not_fused", 1);
            }
            if cfg.lying_hint() {
                if cfg.hint_short > 0 {
                    bump(&mut self.faults, "F7c_exact_hint_under_reports", 1);
                } else {
                    bump(&mut self.faults, "F7d_exact_hint_over_reports", 1);
                }
            }
        }
        bump(
            &mut self.faults,
            "F3d_operations_issued_from_a_destructor_while_unwinding",
            cfg.threads
                .iter()
                .filter(|t| t.contains(&Op::InUnwind))
                .count() as u64,
        );
        bump(&mut self.faults, "F8_stale_load", s.stale_loads);
        bump(
            &mut self.probes,
            "observation_chunk_size_hint_differs_from_len",
            rec.calls
                .iter()
                .filter(|c| matches!(&c.res, Res::Chunk { hint_bad: Some(_), .. }))
                .count() as u64,
        );
        bump(
            &mut self.faults,
            "F4c_chunk_rest_finished_with_count_or_last",
            rec.calls
                .iter()
                .filter(|c| matches!(&c.res, Res::Chunk { finish, .. } if *finish != 0))
                .count() as u64,
        );
        bump(
            &mut self.faults,
            "F4b_chunk_elements_skipped_with_nth",
            rec.calls
                .iter()
                .map(|c| match &c.res {
                    Res::Chunk { skipped, .. } => *skipped as u64,
                    _ => 0,
                })
                .sum(),
        );
        // probes
        bump(&mut self.probes, "thread_blocked_in_spin_loop", s.blocks);
        bump(&mut self.probes, "blocked_thread_woken", s.wakes);
        bump(&mut self.probes, "probation_granted", s.probations);
        bump(
            &mut self.probes,
            "others_blocked_while_one_frozen",
            s.blocked_while_frozen,
        );
        bump(&mut self.probes, "frozen_thread_released", s.unfreezes);
        bump(&mut self.probes, "position_counter_wrapped", s.counter_wraps);
        bump(&mut self.probes, "chunk_shorter_than_requested", facts.short_chunks as u64);
        bump(&mut self.probes, "pulls_after_first_end", facts.pulls_after_end as u64);
        bump(&mut self.probes, "pulls_after_skip_returned", facts.pulls_after_skip as u64);
        bump(&mut self.probes, "pulls_in_flight_at_skip", facts.inflight_at_skip as u64);
        bump(&mut self.probes, "quiescent_queries", facts.quiescent_queries as u64);
        bump(&mut self.probes, "racing_queries", facts.racing_queries as u64);
        bump(
            &mut self.probes,
            "wrapped_next_called_after_none",
            rec.probe.calls_after_none as u64,
        );
        if let Some((site, k)) = cfg.panic {
            if rec.ledger.injected_panics > 0 {
                bump(
                    &mut self.crash_points_fired,
                    &format!("{:?}:k={}:len={}", site, k, cfg.len),
                    1,
                );
            } else {
                self.crash_points_not_reached += 1;
            }
        }
        if let Some(v) = &rec.sim.verdict {
            match v {
                Verdict::Deadlock(_) => bump(&mut self.probes, "deadlock_confirmed", 1),
                Verdict::StepCap(_) => bump(&mut self.probes, "step_cap_hit", 1),
            }
        }
        if rec.sim.aborted {
            self.aborted_runs += 1;
        }
        if facts.lin_checked {
            self.lin_checked += 1;
            self.lin_states += facts.lin_states as u64;
        }
        if self.samples.len() < 3 && cfg.threads.len() >= 2 && rec.calls.len() >= 4 {
            let calls: Vec<String> = rec
                .calls
                .iter()
                .take(24)
                .map(|c| {
                    format!(
                        "T{} {:?}({}) [{}..{}] -> {}",
                        c.tid,
                        c.kind,
                        c.arg as i64,
                        c.invoke,
                        c.ret,
                        brief_res(&c.res)
                    )
                })
                .collect();
            self.samples.push(serde_json::json!({
                "config": cfg,
                "schedule_deviations_from_default": rec.sim.deviations.iter().take(40).collect::<Vec<_>>(),
                "history": calls,
                "event_log_hash": format!("{:016x}", rec.sim.event_hash),
            }));
        }
    }

    pub fn note_other(&mut self, f: &Finding) {
        let key = format!("{}:{}", f.prop, f.class);
        *self.other_property_observations.entry(key.clone()).or_insert(0) += 1;
        self.other_examples.entry(key).or_insert_with(|| f.msg.clone());
    }

    pub fn merge(&mut self, o: &Stats) {
        self.runs += o.runs;
        self.multi_thread_runs += o.multi_thread_runs;
        self.runs_with_cross_thread_conflict += o.runs_with_cross_thread_conflict;
        self.steps += o.steps;
        self.decisions += o.decisions;
        self.atomic_ops += o.atomic_ops;
        self.calls += o.calls;
        self.deliveries = self.deliveries.saturating_add(o.deliveries);
        self.max_preemptions = self.max_preemptions.max(o.max_preemptions);
        self.lin_checked += o.lin_checked;
        self.lin_states += o.lin_states;
        self.aborted_runs += o.aborted_runs;
        self.crash_points_not_reached += o.crash_points_not_reached;
        for (a, b) in [
            (&mut self.steps_hist, &o.steps_hist),
            (&mut self.by_kind, &o.by_kind),
            (&mut self.by_call_kind, &o.by_call_kind),
            (&mut self.by_strategy, &o.by_strategy),
            (&mut self.by_threads, &o.by_threads),
            (&mut self.by_len, &o.by_len),
            (&mut self.by_terminal, &o.by_terminal),
            (&mut self.faults, &o.faults),
            (&mut self.probes, &o.probes),
            (&mut self.crash_points_fired, &o.crash_points_fired),
            (
                &mut self.other_property_observations,
                &o.other_property_observations,
            ),
        ] {
            for (k, v) in b {
                *a.entry(k.clone()).or_insert(0) += v;
            }
        }
        for (k, v) in &o.other_examples {
            self.other_examples.entry(k.clone()).or_insert_with(|| v.clone());
        }
        for (k, v) in &o.known_hits {
            *self.known_hits.entry(k.clone()).or_insert(0) += v;
        }
        for s in &o.samples {
            if self.samples.len() < 3 {
                self.samples.push(s.clone());
            }
        }
    }
}

pub fn brief_res(r: &Res) -> String {
    match r {
        Res::Item { idx, obs } => format!("Item(idx={:?}, element={})", idx, obs.raw),
        Res::Chunk {
            begin,
            announced,
            items,
            ..
        } => format!(
            "Chunk(begin={begin}, len={announced}, consumed={:?})",
            items.iter().map(|o| o.raw).collect::<Vec<_>>()
        ),
        Res::Multi { items, acc } => format!(
            "Visited({:?}, acc={acc:#x})",
            items
                .iter()
                .map(|(i, o)| (i.map(|x| x as i64).unwrap_or(-1), o.raw))
                .collect::<Vec<_>>()
        ),
        other => format!("{:?}", other),
    }
}
