//! Oracles: one per property, evaluated over the recorded history of a run.
//! Every finding names the property it violates; a check only counts findings of its own id.

use crate::elems::{payload_of, ItemObs};
use crate::lin::{self, Act, LinOp, Model};
use crate::sim::Verdict;
use crate::work::*;
use serde::{Deserialize, Serialize};
use std::collections::BTreeMap;

#[derive(Clone, Debug, Serialize, Deserialize, PartialEq, Eq)]
pub struct Finding {
    pub prop: String,
    /// violation class: stable across minimisation (what kind of thing went wrong)
    pub class: String,
    pub msg: String,
}

fn f(prop: &str, class: &str, msg: String) -> Finding {
    Finding {
        prop: prop.to_string(),
        class: class.to_string(),
        msg,
    }
}

/// One delivered position.
#[derive(Clone, Debug)]
struct Deliv {
    call: usize,
    tid: usize,
    /// position reported by the crate, if the method reports one
    reported: Option<usize>,
    /// position derived from the element's identity (None for unconsumed chunk slots)
    actual: Option<i128>,
    obs: Option<ItemObs>,
}

pub struct Facts {
    pub has_skip: bool,
    pub has_panic: bool,
    pub has_composite: bool,
    pub aborted: bool,
    pub end_observed: bool,
    pub lin_checked: bool,
    pub lin_states: usize,
    pub n_calls: usize,
    pub n_deliveries: usize,
    pub short_chunks: u32,
    pub overshoot_pulls: u32,
    pub quiescent_queries: u32,
    pub racing_queries: u32,
    pub pulls_after_end: u32,
    pub pulls_after_skip: u32,
    pub inflight_at_skip: u32,
}

fn position(cfg: &RunCfg, o: &ItemObs) -> i128 {
    if cfg.kind.is_range() {
        o.raw as i128 - cfg.start as i128
    } else {
        o.raw as i128
    }
}

fn deliveries(cfg: &RunCfg, rec: &RunRecord) -> Vec<Deliv> {
    let mut v = Vec::new();
    for (ci, c) in rec.calls.iter().enumerate() {
        match &c.res {
            Res::Item { idx, obs } => v.push(Deliv {
                call: ci,
                tid: c.tid,
                reported: *idx,
                actual: Some(position(cfg, obs)),
                obs: Some(*obs),
            }),
            Res::Chunk {
                begin,
                announced,
                items,
                impossible,
                skipped,
                skip_at,
                ..
            } => {
                if *impossible {
                    continue;
                }
                // j: offset inside the chunk; the offsets [skip_at, skip_at + skipped) were
                // passed over with nth and never seen by the caller
                for j in 0..(*announced).max(items.len() + skipped) {
                    let o = if j < *skip_at {
                        items.get(j)
                    } else if j < *skip_at + *skipped {
                        None
                    } else {
                        items.get(j - skipped)
                    };
                    v.push(Deliv {
                        call: ci,
                        tid: c.tid,
                        reported: Some(begin.wrapping_add(j)),
                        actual: o.map(|o| position(cfg, o)),
                        obs: o.copied(),
                    });
                }
            }
            Res::Multi { items, .. } => {
                for (i, o) in items {
                    v.push(Deliv {
                        call: ci,
                        tid: c.tid,
                        reported: *i,
                        actual: Some(position(cfg, o)),
                        obs: Some(*o),
                    });
                }
            }
            _ => {}
        }
    }
    v
}

/// The position a delivery stands for: identity if known, else the reported index.
fn pos_of(d: &Deliv) -> Option<i128> {
    d.actual.or(d.reported.map(|r| r as i128))
}

fn describe_call(rec: &RunRecord, ci: usize) -> String {
    let c = &rec.calls[ci];
    let arg = if c.arg > usize::MAX / 4 {
        format!("usize::MAX-{}", usize::MAX - c.arg)
    } else {
        c.arg.to_string()
    };
    format!(
        "call#{ci} T{} {:?}({arg}) [{}..{}]",
        c.tid, c.kind, c.invoke, c.ret
    )
}

fn is_end_report(c: &Call) -> bool {
    (c.kind.is_pull() && c.res == Res::End)
        || (c.kind.is_composite() && matches!(c.res, Res::Multi { .. }) && c.arg != usize::MAX)
}

fn delivered_count(c: &Call) -> usize {
    match &c.res {
        Res::Item { .. } => 1,
        Res::Chunk {
            announced, items, ..
        } => (*announced).max(items.len()),
        Res::Multi { items, .. } => items.len(),
        _ => 0,
    }
}

pub fn evaluate(cfg: &RunCfg, rec: &RunRecord) -> (Vec<Finding>, Facts) {
    if cfg.prop == "C16" {
        return evaluate_c16(cfg, rec);
    }
    if cfg.prop == "C19" {
        return evaluate_c19(cfg, rec);
    }
    evaluate_single(cfg, rec)
}

pub fn evaluate_single(cfg: &RunCfg, rec: &RunRecord) -> (Vec<Finding>, Facts) {
    let mut out: Vec<Finding> = Vec::new();
    let kind = cfg.kind;
    let len = cfg.len;
    let calls = &rec.calls;
    let has_skip = calls.iter().any(|c| c.kind == CallKind::Skip);
    let has_panic = cfg.panic.is_some()
        || calls
            .iter()
            .any(|c| matches!(c.res, Res::Panicked { .. }));
    let has_composite = calls.iter().any(|c| c.kind.is_composite());
    let aborted = rec.sim.aborted;
    let end_observed = calls.iter().any(is_end_report);
    let mut facts = Facts {
        has_skip,
        has_panic,
        has_composite,
        aborted,
        end_observed,
        lin_checked: false,
        lin_states: 0,
        n_calls: calls.len(),
        n_deliveries: 0,
        short_chunks: 0,
        overshoot_pulls: 0,
        quiescent_queries: 0,
        racing_queries: 0,
        pulls_after_end: 0,
        pulls_after_skip: 0,
        inflight_at_skip: 0,
    };

    // ---------------------------------------------------------------- C09 / C18: progress
    if let Some(v) = &rec.sim.verdict {
        let p = if cfg.panic.is_some() { "C18" } else { "C09" };
        match v {
            Verdict::Deadlock(d) => out.push(f(
                p,
                "deadlock",
                format!(
                    "no thread can run: blocked threads (tid, [(loc, value)]) = {:?}",
                    d
                ),
            )),
            Verdict::StepCap(n) => out.push(f(
                p,
                "livelock",
                format!("step cap exceeded after {n} scheduling steps"),
            )),
        }
    }
    if kind.known_size() && !rec.sim.blocked_events.is_empty() && cfg.panic.is_none() {
        out.push(f(
            "C09",
            "known-size-pull-waited",
            format!(
                "a call on a known-size source entered a wait loop: (tid, seq) = {:?}",
                &rec.sim.blocked_events[..rec.sim.blocked_events.len().min(4)]
            ),
        ));
    }
    // unexpected panics (the crate's own assertions, index out of bounds, ...)
    for (ci, c) in calls.iter().enumerate() {
        if let Res::Panicked {
            injected: false,
            msg,
        } = &c.res
        {
            if msg.contains("Chunk size must be positive") {
                continue; // documented; only C16 generates these, and judges them itself
            }
            if msg.contains("capacity overflow") && c.arg > (1usize << 40) && !kind.known_size() {
                // documented: a buffered iterator over a wrapped Iterator allocates chunk_size
                // slots; the caller who asks for usize::MAX of them panics. What matters is
                // what happens to the OTHER calls afterwards (C09).
                continue;
            }
            out.push(f(
                "*",
                "unexpected-panic",
                format!("{} panicked: {msg}", describe_call(rec, ci)),
            ));
        }
    }
    if aborted {
        // torn-down run: only the verdict is meaningful
        return (out, facts);
    }

    let dl = deliveries(cfg, rec);
    facts.n_deliveries = dl.len();

    // ---------------------------------------------------------------- C07
    if !rec.probe.overlaps.is_empty() {
        let (a, b, s) = rec.probe.overlaps[0];
        out.push(f(
            "C07",
            "overlap",
            format!("thread {b} entered the wrapped iterator's next at seq {s} while thread {a} was inside it"),
        ));
    }
    if let Some(r) = rec.sim.races.first() {
        out.push(f(
            "C07",
            "race",
            format!(
                "data race on the wrapped iterator: access by T{} at seq {} and by T{} at seq {} are not ordered by happens-before; last atomic operations of T{}: {:?}",
                r.first_tid, r.first_seq, r.second_tid, r.second_seq, r.second_tid, r.recent_ops_of_second
            ),
        ));
    }

    // ---------------------------------------------------------------- duplicates / index / payload
    let dup_prop = if cfg.panic.is_some() {
        "C18"
    } else if has_skip {
        "C06"
    } else {
        "C01"
    };
    let mut seen: BTreeMap<i128, usize> = BTreeMap::new();
    for (di, d) in dl.iter().enumerate() {
        if let Some(p) = pos_of(d) {
            if let Some(&prev) = seen.get(&p) {
                let involves_composite = calls[d.call].kind.is_composite()
                    || calls[dl[prev].call].kind.is_composite();
                let msg = format!(
                    "position {p} delivered twice: by {} and by {}",
                    describe_call(rec, dl[prev].call),
                    describe_call(rec, d.call)
                );
                out.push(f(dup_prop, "duplicate", msg.clone()));
                if involves_composite && dup_prop == "C01" {
                    out.push(f("C12", "duplicate", msg));
                }
                break;
            }
            seen.insert(p, di);
        }
    }
    for d in &dl {
        let Some(o) = d.obs else { continue };
        let a = d.actual.expect("obs implies actual");
        if cfg.tail > 0 && a >= len as i128 && a < (len + cfg.tail) as i128 {
            // a non-fused source: its sequence ended with the first None
            if calls[d.call].kind.is_composite() {
                out.push(f(
                    "C12",
                    "visited-beyond-the-source-sequence",
                    format!(
                        "{} visited raw={}, which the wrapped iterator yields only if it is polled again after it has returned None: the source has {len} elements",
                        describe_call(rec, d.call),
                        o.raw
                    ),
                ));
            }
            out.push(f(
                "C01",
                "delivered-beyond-the-source-sequence",
                format!(
                    "{} delivered raw={}, which the wrapped iterator yields only if it is polled again after it has returned None: the source sequence has {len} elements",
                    describe_call(rec, d.call),
                    o.raw
                ),
            ));
        }
        if a < 0 || a >= len as i128 {
            let p = if kind.is_range() { "C16" } else { "C02" };
            out.push(f(
                p,
                "out-of-range",
                format!(
                    "{} delivered an element that is not in the source: raw={} (len {len}, start {})",
                    describe_call(rec, d.call),
                    o.raw,
                    cfg.start
                ),
            ));
            break;
        }
        if let Some(r) = d.reported {
            if r as i128 != a {
                let p = if calls[d.call].kind == CallKind::EnumForEach {
                    "C12"
                } else {
                    "C02"
                };
                out.push(f(
                    p,
                    "wrong-index",
                    format!(
                        "{} reported index {r} for the element at source position {a}",
                        describe_call(rec, d.call)
                    ),
                ));
                if p == "C12" {
                    out.push(f("C02", "wrong-index", format!("enumerate_for_each reported index {r} for position {a}")));
                }
                break;
            }
        }
        if !kind.is_range() {
            if o.payload != payload_of(cfg.run_seed, o.raw) {
                out.push(f(
                    "C02",
                    "wrong-content",
                    format!(
                        "{} delivered id {} with a payload that is not the source's",
                        describe_call(rec, d.call),
                        o.raw
                    ),
                ));
                break;
            }
            if kind.yields_refs() {
                let want = rec.base_addr + (a as usize) * rec.elem_size;
                if o.addr != want {
                    let p = if kind == Kind::IterRef { "C02" } else { "C19" };
                    out.push(f(
                        p,
                        "wrong-address",
                        format!(
                            "{} delivered a reference to {:#x}, the source element {a} lives at {:#x}",
                            describe_call(rec, d.call),
                            o.addr,
                            want
                        ),
                    ));
                    if p == "C19" {
                        out.push(f("C02", "wrong-address", format!("reference for position {a} does not point at the source element")));
                    }
                    break;
                }
            }
            let want_gen = if kind.is_adaptor() { 1 } else { 0 };
            if o.gen != want_gen {
                out.push(f(
                    "C13",
                    "wrong-generation",
                    format!(
                        "{} delivered generation {} (0 original, 1 clone), expected {want_gen}",
                        describe_call(rec, d.call),
                        o.gen
                    ),
                ));
                break;
            }
        }
    }

    // ---------------------------------------------------------------- C01: nothing lost
    if end_observed && !has_skip && !has_panic && !kind.is_endless() {
        let missing: Vec<usize> = (0..len).filter(|p| !seen.contains_key(&(*p as i128))).collect();
        // positions never delivered may still be returned by into_seq_iter only if no end was
        // observed; here an end was observed, so everything must have been delivered
        if !missing.is_empty() {
            let msg = format!(
                "positions {:?} of {len} were never delivered although the end was reported",
                &missing[..missing.len().min(8)]
            );
            out.push(f("C01", "lost", msg.clone()));
            if has_composite {
                out.push(f("C12", "lost", msg));
            }
        }
    }

    // ---------------------------------------------------------------- C03: chunk contract
    // (also in histories with skip_to_end: a chunk that is returned is a whole chunk; a skip by
    // another thread in the middle of a chunk pull must not cut it short - "for every
    // interleaving", and C06: pulls in flight deliver the positions they had reserved; and in
    // histories with panics: a chunk that IS returned, by a call that did not panic, is a chunk)
    {
        for (ci, c) in calls.iter().enumerate() {
            if let Res::Chunk {
                begin,
                announced,
                items,
                lens,
                exhausted,
                impossible,
                skipped,
                skip_at,
                finish,
                finish_count,
                finish_last,
                hint_bad,
            } = &c.res
            {
                // size_hint() != len() is recorded as an observation only (stats): C03 speaks of
                // the announced length, i.e. ExactSizeIterator::len()
                let _ = hint_bad;
                let n = c.arg;
                let skipped = *skipped;
                let skip_at = *skip_at;
                let want_len = |j: usize| -> usize {
                    announced.wrapping_sub(crate::work::chunk_consumed_before(skipped, skip_at, j))
                };
                let mut bad: Option<String> = None;
                if *impossible {
                    bad = Some(format!("announced an impossible length {announced}"));
                } else if *announced == 0 {
                    bad = Some("returned an empty chunk instead of reporting the end".into());
                } else if *announced > n {
                    bad = Some(format!("announced {announced} elements for chunk size {n}"));
                } else if *exhausted && items.len() + skipped != *announced {
                    bad = Some(format!(
                        "announced {announced} elements but yielded {} (after nth({skipped}))",
                        items.len()
                    ));
                } else if items.len() + skipped > *announced {
                    bad = Some(format!(
                        "yielded {} elements after nth({skipped}), more than the announced {announced}",
                        items.len()
                    ));
                } else if lens.iter().enumerate().any(|(j, l)| *l != want_len(j)) {
                    bad = Some(format!(
                        "len() did not count down from {announced}: {:?}",
                        lens
                    ));
                } else if items
                    .iter()
                    .enumerate()
                    .any(|(j, o)| {
                        position(cfg, o)
                            != (*begin + crate::work::chunk_off(skipped, skip_at, j)) as i128
                    })
                {
                    bad = Some(format!(
                        "elements are not the consecutive positions from begin index {begin} (nth({skipped}) called after {skip_at} elements): {:?}",
                        items.iter().map(|o| position(cfg, o)).collect::<Vec<_>>()
                    ));
                } else if *finish == 1
                    && *finish_count != Some(announced - (skipped + items.len()).min(*announced))
                {
                    bad = Some(format!(
                        "count() on the rest returned {:?}, {} elements were left of the announced {announced}",
                        finish_count,
                        announced - (skipped + items.len()).min(*announced)
                    ));
                } else if *finish == 2
                    && finish_last.map(|o| position(cfg, &o))
                        != if skipped + items.len() < *announced {
                            Some((*begin + *announced - 1) as i128)
                        } else {
                            None
                        }
                {
                    bad = Some(format!(
                        "last() on the rest returned position {:?}, the chunk is [{begin}, {})",
                        finish_last.map(|o| position(cfg, &o)),
                        begin + announced
                    ));
                } else if *announced < n && begin + announced != len && !cfg.lying_hint() {
                    bad = Some(format!(
                        "chunk [{begin}, {}) is shorter than the chunk size {n} but does not end at the last element ({len})",
                        begin + announced
                    ));
                }
                if *announced < n {
                    facts.short_chunks += 1;
                }
                if let Some(b) = bad {
                    out.push(f(
                        "C03",
                        "chunk-contract",
                        format!("{}: {b}", describe_call(rec, ci)),
                    ));
                    break;
                }
            }
        }
    }

    // ---------------------------------------------------------------- C05: the end is permanent
    // (also in histories with skip_to_end: an end that was reported stays the end, whoever and
    // whatever caused it; pulls that were in flight at the time are not "started afterwards")
    if !has_panic {
        let first_end = calls.iter().filter(|c| is_end_report(c)).map(|c| c.ret).min();
        if let Some(r) = first_end {
            for (ci, c) in calls.iter().enumerate() {
                if c.invoke <= r {
                    continue;
                }
                if c.kind.is_pull() || c.kind.is_composite() {
                    facts.pulls_after_end += 1;
                    if delivered_count(c) > 0 {
                        let p = if calls
                            .iter()
                            .any(|e| is_end_report(e) && e.kind.is_composite() && e.ret < c.invoke)
                            && !calls
                                .iter()
                                .any(|e| e.kind.is_pull() && e.res == Res::End && e.ret < c.invoke)
                        {
                            "C12"
                        } else {
                            "C05"
                        };
                        out.push(f(
                            p,
                            "delivery-after-end",
                            format!(
                                "{} delivered {} element(s) although the end had been reported at seq {r}",
                                describe_call(rec, ci),
                                delivered_count(c)
                            ),
                        ));
                        break;
                    }
                }
                match &c.res {
                    Res::Len(Some(x)) if *x > 0 => {
                        out.push(f(
                            "C05",
                            "positive-length-after-end",
                            format!(
                                "{} reported {x} remaining elements after the end had been reported at seq {r}",
                                describe_call(rec, ci)
                            ),
                        ));
                        break;
                    }
                    Res::HasMore(HasMoreObs::Yes(x)) => {
                        out.push(f(
                            "C05",
                            "positive-length-after-end",
                            format!(
                                "{} reported Yes({x}) after the end had been reported at seq {r}",
                                describe_call(rec, ci)
                            ),
                        ));
                        break;
                    }
                    _ => {}
                }
            }
        }
    }

    // ---------------------------------------------------------------- C06: skip_to_end
    if has_skip && !has_panic {
        let first_skip_ret = calls
            .iter()
            .filter(|c| c.kind == CallKind::Skip && c.res == Res::Unit)
            .map(|c| c.ret)
            .min();
        if let Some(r) = first_skip_ret {
            for c in calls.iter() {
                if c.kind.is_pull() && c.invoke < r && c.ret > r {
                    facts.inflight_at_skip += 1;
                }
            }
            for (ci, c) in calls.iter().enumerate() {
                if c.invoke <= r {
                    continue;
                }
                if c.kind.is_pull() || c.kind.is_composite() {
                    facts.pulls_after_skip += 1;
                    if delivered_count(c) > 0 {
                        out.push(f(
                            "C06",
                            "delivery-after-skip",
                            format!(
                                "{} delivered {} element(s) although skip_to_end had returned at seq {r}",
                                describe_call(rec, ci),
                                delivered_count(c)
                            ),
                        ));
                        break;
                    }
                }
                if c.kind == CallKind::HasMore && c.res != Res::HasMore(HasMoreObs::No) {
                    out.push(f(
                        "C06",
                        "has-more-after-skip",
                        format!(
                            "{} answered {:?} although skip_to_end had returned at seq {r}",
                            describe_call(rec, ci),
                            c.res
                        ),
                    ));
                    break;
                }
            }
        }
        // per-thread order
        let mut last: BTreeMap<usize, i128> = BTreeMap::new();
        for d in &dl {
            if calls[d.call].kind.is_composite() {
                continue;
            }
            if let Some(p) = pos_of(d) {
                if let Some(&prev) = last.get(&d.tid) {
                    if p <= prev {
                        out.push(f(
                            "C06",
                            "out-of-order",
                            format!(
                                "thread {} received position {p} after position {prev} ({})",
                                d.tid,
                                describe_call(rec, d.call)
                            ),
                        ));
                        break;
                    }
                }
                last.insert(d.tid, p);
            }
        }
        if kind.yields_refs() && !rec.source_intact {
            out.push(f(
                "C06",
                "source-modified",
                "source elements changed although only references were handed out".into(),
            ));
        }
    }

    // ---------------------------------------------------------------- C04 (and C06/C11 via the same model): linearizability
    // (nested: pulls on the base are not calls on the iterator under test)
    let lin_ok_domain = !has_panic && !has_composite && !cfg.lying_hint() && !kind.is_nested();
    if lin_ok_domain {
        let sized = cfg.sized();
        let m = Model { len, sized };
        let mut ops: Vec<LinOp> = Vec::new();
        let mut representable = true;
        let mut chunk_flagged = false;
        for (ci, c) in calls.iter().enumerate() {
            let act = match (&c.kind, &c.res) {
                (k, Res::Item { .. }) if k.is_pull() => {
                    let d = dl.iter().find(|d| d.call == ci).expect("delivery");
                    match pos_of(d) {
                        Some(p) if p >= 0 => Act::Pull(1, Some((p as usize, 1))),
                        _ => {
                            representable = false;
                            continue;
                        }
                    }
                }
                (k, Res::Chunk { begin, announced, impossible, items, exhausted, skipped, skip_at, .. }) if k.is_pull() => {
                    if *impossible && !chunk_flagged {
                        // a chunk that announces more elements than the source has (or than were
                        // asked for) is nothing a sequential cursor hands out
                        chunk_flagged = true;
                        out.push(f(
                            if has_skip { "C06" } else { "C04" },
                            "chunk-not-cursor-positions",
                            format!(
                                "{} announced {announced} elements from begin index {begin}: not what a sequential cursor over {len} elements delivers",
                                describe_call(rec, ci)
                            ),
                        ));
                    }
                    if *impossible || c.arg == 0 {
                        representable = false;
                        continue;
                    }
                    // what the chunk actually yields must be the cursor's positions, in order
                    let consistent = items
                        .iter()
                        .enumerate()
                        .all(|(j, o)| {
                            position(cfg, o)
                                == (*begin + crate::work::chunk_off(*skipped, *skip_at, j)) as i128
                        })
                        && items.len() + skipped <= *announced
                        && (!*exhausted || items.len() + skipped == *announced);
                    if !consistent && !chunk_flagged {
                        chunk_flagged = true;
                        out.push(f(
                            if has_skip { "C06" } else { "C04" },
                            "chunk-not-cursor-positions",
                            format!(
                                "{} announced positions [{begin}, {}) but yielded {:?}: not what a sequential cursor delivers",
                                describe_call(rec, ci),
                                begin + announced,
                                items.iter().map(|o| position(cfg, o)).collect::<Vec<_>>()
                            ),
                        ));
                    }
                    Act::Pull(c.arg, Some((*begin, *announced)))
                }
                (k, Res::End) if k.is_pull() => Act::Pull(c.arg.max(1), None),
                // With skip_to_end in the history a racing query is not required to be
                // linearizable (an in-flight pull may or may not deliver, C06); queries are then
                // judged by the clauses of C11 only (eval_queries).
                (CallKind::Len, Res::Len(_)) | (CallKind::HasMore, Res::HasMore(_)) if has_skip => {
                    continue
                }
                (CallKind::Len, Res::Len(l)) => Act::Len(*l),
                (CallKind::HasMore, Res::HasMore(h)) => Act::Len(match h {
                    HasMoreObs::Yes(n) => Some(*n),
                    HasMoreObs::No => Some(0),
                    HasMoreObs::Maybe => None,
                }),
                (CallKind::Skip, Res::Unit) => Act::Skip,
                _ => continue,
            };
            ops.push(LinOp {
                invoke: c.invoke,
                ret: c.ret,
                tid: c.tid,
                act,
                call: ci,
            });
        }
        if representable && ops.len() <= 60 {
            let r = lin::check(&m, &ops);
            facts.lin_checked = true;
            facts.lin_states = r.states_visited;
            if !r.ok {
                let stuck: Vec<String> = r
                    .stuck_on
                    .iter()
                    .take(4)
                    .map(|&ci| format!("{} -> {:?}", describe_call(rec, ci), brief(&calls[ci].res)))
                    .collect();
                let has_query = ops.iter().any(|o| matches!(o.act, Act::Len(_)));
                let p = if has_skip {
                    "C06"
                } else {
                    "C04"
                };
                let msg = format!(
                    "history is not linearizable against the sequential cursor model (len {len}): after linearizing {} of {} calls none of the candidates fits: {:?}",
                    r.best_depth,
                    ops.len(),
                    stuck
                );
                out.push(f(p, "not-linearizable", msg.clone()));
                if has_skip {
                    // a history of pulls and skips that no order of one cursor explains violates
                    // C04 ("one linearizable cursor") as much as C06
                    out.push(f("C04", "not-linearizable", msg.clone()));
                }
                if has_query {
                    // a history that becomes linearizable once the queries are removed is a
                    // query problem (C11), otherwise a cursor problem
                    let pulls_only: Vec<LinOp> = ops
                        .iter()
                        .filter(|o| !matches!(o.act, Act::Len(_)))
                        .cloned()
                        .collect();
                    if lin::check(&m, &pulls_only).ok {
                        out.pop();
                        out.push(f("C11", "query-not-linearizable", msg));
                    }
                }
            }
        }
    }

    // ---------------------------------------------------------------- C11: queries
    if !has_panic && !cfg.lying_hint() {
        eval_queries(cfg, rec, &dl, &mut out, &mut facts);
    }

    // ---------------------------------------------------------------- C08: ledger
    if kind.is_zst() {
        let p = if crate_panic(cfg) { "C18" } else { "C08" };
        let l = &rec.ledger;
        if l.zst_drops as usize != len {
            out.push(f(
                p,
                if (l.zst_drops as usize) < len {
                    "never-dropped"
                } else {
                    "double-drop"
                },
                format!(
                    "{} destructor runs for {len} zero-sized elements (skip used: {has_skip})",
                    l.zst_drops
                ),
            ));
            if (l.zst_drops as usize) < len && cfg.panic.is_none() {
                // a zero-sized element owns no heap block the allocation ledger could see; what its
                // destructor would have released is leaked all the same
                out.push(f(
                    "C15",
                    "never-dropped",
                    format!(
                        "{} of {len} zero-sized elements were never destroyed: whatever their destructor releases is leaked",
                        len - l.zst_drops as usize
                    ),
                ));
            }
        }
    } else if kind.consuming() {
        let p = if crate_panic(cfg) { "C18" } else { "C08" };
        let l = &rec.ledger;
        if let Some((id, seq, t)) = l.double_drops.first() {
            out.push(f(
                p,
                "double-drop",
                format!(
                    "element {id} was destroyed a second time (seq {seq}, thread {t}); drop counts {:?}",
                    l.dropped
                ),
            ));
        } else if l.foreign_drops > 0 {
            out.push(f(
                p,
                "garbage-drop",
                format!("{} destructor runs on objects that are not source elements", l.foreign_drops),
            ));
        } else {
            let never: Vec<usize> = (0..len).filter(|&i| l.dropped[i] == 0).collect();
            if !never.is_empty() {
                out.push(f(
                    p,
                    "never-dropped",
                    format!(
                        "elements {:?} were neither destroyed by the iterator nor by a caller (drop counts {:?}, skip used: {has_skip})",
                        &never[..never.len().min(8)],
                        l.dropped
                    ),
                ));
            }
        }
    } else if !kind.is_range() {
        if rec.source_drops_before_end > 0 || rec.ledger.double_drops.len() > 0 {
            let p = if kind.is_adaptor() { "C13" } else { "C19" };
            out.push(f(
                p,
                "source-element-dropped",
                format!(
                    "{} source elements were destroyed while the collection was only borrowed",
                    rec.source_drops_before_end
                ),
            ));
        }
        if !rec.source_intact {
            let p = if kind.is_adaptor() { "C13" } else { "C19" };
            out.push(f(p, "source-modified", "the borrowed collection changed".into()));
        }
        if kind.is_cloned() {
            let l = &rec.ledger;
            for i in 0..len {
                if l.clones[i] != l.clone_drops[i] {
                    out.push(f(
                        "C13",
                        "clone-ledger",
                        format!(
                            "element {i}: {} clones made, {} clones destroyed",
                            l.clones[i], l.clone_drops[i]
                        ),
                    ));
                    break;
                }
            }
        }
    }

    // ---------------------------------------------------------------- C15: scoped allocation ledger
    // (a panic of the caller's own code - its closure, or while it holds a chunk - is no excuse
    // for the crate to keep memory; panics inside the wrapped iterator, a clone or a destructor
    // are judged by C18 / C08 only)
    let caller_side_panic = matches!(
        cfg.panic,
        Some((crate::work::PanicSite::Closure, _)) | Some((crate::work::PanicSite::Consumer, _))
    );
    if rec.leaked.0 > 0 && (cfg.panic.is_none() || caller_side_panic) {
        out.push(f(
            "C15",
            "leak",
            format!(
                "{} heap block(s), {} bytes, allocated for the source or by the iterator machinery are still live after everything was dropped; (size, phase) of some: {:?}",
                rec.leaked.0, rec.leaked.1, rec.leaked.2
            ),
        ));
    }

    // a heap block released with a size other than the one it was allocated with: undefined
    // behaviour of the allocator API (a buffer rebuilt with a wrong capacity), whatever the
    // system allocator makes of it
    if rec.layout_mismatch.0 > 0 {
        for p in ["C15", "C17"] {
            out.push(f(
                p,
                "dealloc-layout-mismatch",
                format!(
                    "{} heap block(s) of the source or of the iterator machinery were released with a layout other than their own (first: allocated with {} bytes, released as {} bytes): undefined behaviour of GlobalAlloc::dealloc",
                    rec.layout_mismatch.0, rec.layout_mismatch.1, rec.layout_mismatch.2
                ),
            ));
        }
    }

    // ---------------------------------------------------------------- C10: into_seq_iter
    if let (Some(items), false) = (&rec.seq_items, has_panic) {
        let delivered: Vec<i128> = seen.keys().cloned().collect();
        let complement: Vec<i128> = (0..len as i128).filter(|p| !seen.contains_key(p)).collect();
        let got: Vec<i128> = items.iter().map(|o| position(cfg, o)).collect();
        let take = match cfg.terminal {
            Terminal::IntoSeq(m) => m,
            _ => usize::MAX,
        };
        let mut bad: Option<String> = None;
        if kind.is_zst() {
            // no identity: the remainder is judged by its size
            let want = complement.len().min(take);
            let ok = if has_skip {
                got.len() <= want
            } else {
                got.len() == want
            };
            if !ok {
                bad = Some(format!(
                    "into_seq_iter yielded {} zero-sized elements; {} of {len} positions were delivered, so {} remain",
                    got.len(),
                    delivered.len(),
                    complement.len()
                ));
            }
        } else if !has_skip {
            let want: Vec<i128> = complement.iter().cloned().take(take).collect();
            if got != want {
                bad = Some(format!(
                    "into_seq_iter yielded positions {:?}; delivered {:?}, so the remainder is {:?}",
                    got, delivered, want
                ));
            }
        } else {
            // an ordered suffix of the undelivered positions (first `take` of it)
            let ok = (0..=complement.len()).any(|j| {
                let suffix: Vec<i128> = complement[j..].iter().cloned().take(take).collect();
                suffix == got
            });
            if !ok {
                bad = Some(format!(
                    "after skip_to_end into_seq_iter yielded {:?}, which is not a suffix of the undelivered positions {:?}",
                    got, complement
                ));
            }
        }
        if bad.is_none() && !kind.is_range() && !kind.is_zst() {
            for o in items {
                if o.payload != payload_of(cfg.run_seed, o.raw) {
                    bad = Some(format!("into_seq_iter yielded id {} with a foreign payload", o.raw));
                }
            }
        }
        if let Some(b) = bad {
            out.push(f("C10", "wrong-remainder", b));
        }
    }
    if let Some(msg) = &rec.terminal_panic {
        let p = match cfg.terminal {
            Terminal::IntoSeq(_) => "C10",
            Terminal::Drop => "C08",
        };
        if cfg.panic.is_none() {
            out.push(f(p, "terminal-panic", format!("terminal action panicked: {msg}")));
        }
    }

    // ---------------------------------------------------------------- C12: for_each / fold
    if has_composite && !has_panic {
        for (ci, c) in calls.iter().enumerate() {
            if let (CallKind::Fold, Res::Multi { items, acc }) = (&c.kind, &c.res) {
                let want = items
                    .iter()
                    .fold(0u64, |a, (_, o)| a.wrapping_add(fold_term(o)));
                if *acc != want {
                    out.push(f(
                        "C12",
                        "fold-result",
                        format!(
                            "{} returned {acc:#x}, folding the {} elements it visited gives {want:#x}",
                            describe_call(rec, ci),
                            items.len()
                        ),
                    ));
                    break;
                }
            }
        }
    }

    (out, facts)
}

fn brief(r: &Res) -> String {
    match r {
        Res::Item { idx, obs } => format!("Item(idx {:?}, raw {})", idx, obs.raw),
        Res::Chunk {
            begin, announced, ..
        } => format!("Chunk[{begin}, +{announced})"),
        other => format!("{:?}", other),
    }
}

/// A panic injected inside the crate's call tree (C18's sites), as opposed to a panic of the
/// caller while it holds a chunk (C08).
fn crate_panic(cfg: &RunCfg) -> bool {
    matches!(
        cfg.panic,
        Some((s, _)) if s != crate::work::PanicSite::Consumer && s != crate::work::PanicSite::ElemDrop
    )
}

fn eval_queries(
    cfg: &RunCfg,
    rec: &RunRecord,
    _dl: &[Deliv],
    out: &mut Vec<Finding>,
    facts: &mut Facts,
) {
    let calls = &rec.calls;
    let len = cfg.len;
    let kind = cfg.kind;
    let sized = cfg.sized();
    let val = |c: &Call| -> Option<Option<usize>> {
        match &c.res {
            Res::Len(l) => Some(*l),
            Res::HasMore(HasMoreObs::Yes(n)) => Some(Some(*n)),
            Res::HasMore(HasMoreObs::No) => Some(Some(0)),
            Res::HasMore(HasMoreObs::Maybe) => Some(None),
            _ => None,
        }
    };
    let queries: Vec<usize> = (0..calls.len())
        .filter(|&i| matches!(calls[i].kind, CallKind::Len | CallKind::HasMore) && val(&calls[i]).is_some())
        .collect();
    for &qi in &queries {
        let q = &calls[qi];
        let v = val(q).expect("query");
        // has_more(Yes(0)) can never be produced, Yes(n) means n > 0
        if let Res::HasMore(HasMoreObs::Yes(0)) = q.res {
            out.push(f("C11", "has-more-yes-zero", format!("{} answered Yes(0)", describe_call(rec, qi))));
            return;
        }
        let overlapping = calls.iter().any(|c| {
            (c.kind.is_pull()
                || c.kind.is_composite()
                || c.kind == CallKind::Skip
                || c.kind == CallKind::BasePull)
                && c.invoke < q.ret
                && c.ret > q.invoke
        });
        if overlapping {
            facts.racing_queries += 1;
        } else {
            facts.quiescent_queries += 1;
            // model at quiescence
            let delivered: usize = calls
                .iter()
                .filter(|c| c.ret < q.invoke)
                .map(delivered_count)
                .sum();
            let skipped = calls
                .iter()
                .any(|c| c.kind == CallKind::Skip && c.ret < q.invoke);
            let end_by_single_or_oneshot = calls.iter().any(|c| {
                c.ret < q.invoke
                    && c.res == Res::End
                    && (c.kind.is_single_pull() || c.kind == CallKind::Chunk)
            });
            let remaining = if skipped { 0 } else { len.saturating_sub(delivered) };
            let mut bad: Option<String> = None;
            match v {
                Some(x) if kind.is_nested() => {
                    // the outer iterator may know the length or not; what it says must be true
                    if x != remaining {
                        bad = Some(format!(
                            "answered {x} with no pull in flight, but {delivered} of the {len} elements had been delivered (through the outer iterator or directly from its base), so {remaining} remain"
                        ));
                    }
                }
                Some(x) => {
                    if sized {
                        if x != remaining {
                            bad = Some(format!(
                                "answered {x} with no pull in flight; {delivered} of {len} positions were delivered (skip: {skipped}), so {remaining} remain"
                            ));
                        }
                    } else if x != 0 {
                        bad = Some(format!("answered {x} for a source of unknown size"));
                    } else if remaining != 0 {
                        bad = Some(format!(
                            "answered 0/No although {remaining} elements will still be delivered"
                        ));
                    }
                }
                None => {
                    if sized {
                        bad = Some("answered None/Maybe for a source of known size".into());
                    } else if end_by_single_or_oneshot || skipped {
                        bad = Some(
                            "answered None/Maybe although a pull had already reported the end (or skip_to_end had returned)"
                                .into(),
                        );
                    }
                }
            }
            if let Some(b) = bad {
                out.push(f(
                    "C11",
                    "quiescent-query",
                    format!("{} {b}", describe_call(rec, qi)),
                ));
                return;
            }
        }
        // definitive zero
        if v == Some(0) {
            for (ci, c) in calls.iter().enumerate() {
                if c.invoke > q.ret
                    && (c.kind.is_pull() || c.kind.is_composite())
                    && delivered_count(c) > 0
                {
                    out.push(f(
                        "C11",
                        "zero-not-definitive",
                        format!(
                            "{} answered 0/No at seq {}, yet {} later delivered {} element(s)",
                            describe_call(rec, qi),
                            q.ret,
                            describe_call(rec, ci),
                            delivered_count(c)
                        ),
                    ));
                    return;
                }
            }
        }
    }
    // monotone
    for (a_i, &qa) in queries.iter().enumerate() {
        for &qb in &queries[a_i + 1..] {
            let (a, b) = (&calls[qa], &calls[qb]);
            let (first, second, fi, si) = if a.ret < b.invoke {
                (a, b, qa, qb)
            } else if b.ret < a.invoke {
                (b, a, qb, qa)
            } else {
                continue;
            };
            match (val(first).expect("q"), val(second).expect("q")) {
                (Some(x), Some(y)) if y > x => {
                    out.push(f(
                        "C11",
                        "length-increased",
                        format!(
                            "{} answered {x}, the later {} answered {y}",
                            describe_call(rec, fi),
                            describe_call(rec, si)
                        ),
                    ));
                    return;
                }
                (Some(_), None) => {
                    out.push(f(
                        "C11",
                        "length-forgotten",
                        format!(
                            "{} knew the length, the later {} answered None/Maybe",
                            describe_call(rec, fi),
                            describe_call(rec, si)
                        ),
                    ));
                    return;
                }
                _ => {}
            }
        }
    }
}

// ---------------------------------------------------------------------------------------------
// C16: boundary arithmetic. Everything is computed in u128 / i128, nothing enumerates 0..len.

fn empty_facts(rec: &RunRecord) -> Facts {
    Facts {
        has_skip: false,
        has_panic: false,
        has_composite: false,
        aborted: rec.sim.aborted,
        end_observed: false,
        lin_checked: false,
        lin_states: 0,
        n_calls: rec.calls.len(),
        n_deliveries: 0,
        short_chunks: 0,
        overshoot_pulls: 0,
        quiescent_queries: 0,
        racing_queries: 0,
        pulls_after_end: 0,
        pulls_after_skip: 0,
        inflight_at_skip: 0,
    }
}

pub fn evaluate_c16(cfg: &RunCfg, rec: &RunRecord) -> (Vec<Finding>, Facts) {
    let (mut out, facts) = evaluate_c16_inner(cfg, rec);
    if rec.sim.stats.counter_wraps > 0 {
        for x in out.iter_mut() {
            x.msg
                .push_str(" [root-cause marker: a position counter wrapped around usize::MAX]");
        }
    }
    (out, facts)
}

fn evaluate_c16_inner(cfg: &RunCfg, rec: &RunRecord) -> (Vec<Finding>, Facts) {
    let mut out = Vec::new();
    let mut facts = empty_facts(rec);
    let calls = &rec.calls;
    let len = cfg.len as u128;
    let start = cfg.start as u128;
    let is_range = cfg.kind.is_range();
    let p = "C16";
    if let Some(v) = &rec.sim.verdict {
        out.push(f(p, "hang", format!("the run did not terminate: {:?}", v)));
        return (out, facts);
    }
    if rec.sim.aborted {
        return (out, facts);
    }
    facts.has_skip = calls.iter().any(|c| c.kind == CallKind::Skip);
    let pos = |o: &ItemObs| -> i128 {
        if is_range {
            o.raw as i128 - start as i128
        } else {
            o.raw as i128
        }
    };
    let mut ops: Vec<LinOp> = Vec::new();
    let mut delivered: u128 = 0;
    for (ci, c) in calls.iter().enumerate() {
        let zero_must_panic = c.arg == 0
            && matches!(
                c.kind,
                CallKind::BufNew | CallKind::ForEach | CallKind::EnumForEach | CallKind::Fold
            );
        match &c.res {
            Res::Panicked { injected: false, msg } => {
                if zero_must_panic && msg.contains("Chunk size must be positive") {
                    continue;
                }
                out.push(f(
                    p,
                    "unexpected-panic",
                    format!("{} panicked: {msg}", describe_call(rec, ci)),
                ));
                return (out, facts);
            }
            _ if zero_must_panic && c.arg != usize::MAX => {
                out.push(f(
                    p,
                    "missing-documented-panic",
                    format!(
                        "{} with chunk size zero did not panic",
                        describe_call(rec, ci)
                    ),
                ));
                return (out, facts);
            }
            _ => {}
        }
        let act = match (&c.kind, &c.res) {
            (k, Res::Item { idx, obs }) if k.is_pull() => {
                let a = pos(obs);
                if a < 0 || a as u128 >= len {
                    out.push(f(
                        p,
                        "out-of-range",
                        format!(
                            "{} delivered value {} which is not in the source (start {}, length {})",
                            describe_call(rec, ci),
                            obs.raw,
                            cfg.start,
                            cfg.len
                        ),
                    ));
                    return (out, facts);
                }
                if let Some(i) = idx {
                    if *i as i128 != a {
                        out.push(f(
                            p,
                            "wrong-index",
                            format!(
                                "{} reported index {i} for position {a}",
                                describe_call(rec, ci)
                            ),
                        ));
                        return (out, facts);
                    }
                }
                delivered += 1;
                Act::Pull(1, Some((a as usize, 1)))
            }
            (k, Res::Chunk { begin, announced, items, lens, impossible, skipped, .. }) if k.is_pull() => {
                let n = c.arg;
                let b = *begin as u128;
                let a = *announced as u128;
                let sk = *skipped as u128;
                let want_len = |j: usize| -> u128 {
                    if j == 0 {
                        a
                    } else {
                        a.wrapping_sub(sk + j as u128)
                    }
                };
                let mut bad: Option<String> = None;
                if n == 0 {
                    bad = Some("a pull with chunk size zero returned a chunk".into());
                } else if *impossible || a > n as u128 || b + a > len {
                    bad = Some(format!(
                        "chunk [{b}, {b}+{a}) does not lie inside the source of length {len} / exceeds the chunk size {n}"
                    ));
                } else if a == 0 {
                    bad = Some("returned an empty chunk".into());
                } else if items
                    .iter()
                    .enumerate()
                    .any(|(j, o)| pos(o) != (b + sk + j as u128) as i128)
                {
                    bad = Some(format!(
                        "values {:?} are not the consecutive positions from begin index {b} (start {start}, first taken with nth({sk}))",
                        items.iter().map(|o| o.raw).collect::<Vec<_>>()
                    ));
                } else if lens.iter().enumerate().any(|(j, l)| *l as u128 != want_len(j)) {
                    bad = Some(format!("len() did not count down from {a}: {:?}", lens));
                }
                if let Some(bad) = bad {
                    out.push(f(
                        p,
                        "chunk-contract",
                        format!("{}: {bad}", describe_call(rec, ci)),
                    ));
                    return (out, facts);
                }
                delivered += *announced as u128;
                Act::Pull(n, Some((*begin, *announced)))
            }
            (k, Res::End) if k.is_pull() => {
                if c.arg == 0 && *k == CallKind::Chunk {
                    // a one-shot pull of size zero is a no-op in the model
                    continue;
                }
                Act::Pull(c.arg.max(1), None)
            }
            (CallKind::Len, Res::Len(l)) => Act::Len(*l),
            (CallKind::HasMore, Res::HasMore(h)) => Act::Len(match h {
                HasMoreObs::Yes(n) => Some(*n),
                HasMoreObs::No => Some(0),
                HasMoreObs::Maybe => None,
            }),
            (CallKind::Skip, Res::Unit) => Act::Skip,
            _ => continue,
        };
        if facts.has_skip && matches!(act, Act::Len(_)) && cfg.threads.len() >= 2 {
            continue; // racing queries + skip: judged by C11's clauses, see evaluate()
        }
        ops.push(LinOp {
            invoke: c.invoke,
            ret: c.ret,
            tid: c.tid,
            act,
            call: ci,
        });
    }
    let sized = cfg.sized();
    let m = Model { len: cfg.len, sized };
    if ops.len() <= 60 {
        let r = lin::check(&m, &ops);
        facts.lin_checked = true;
        facts.lin_states = r.states_visited;
        if !r.ok {
            let stuck: Vec<String> = r
                .stuck_on
                .iter()
                .take(4)
                .map(|&ci| format!("{} -> {}", describe_call(rec, ci), brief(&calls[ci].res)))
                .collect();
            out.push(f(
                p,
                "not-the-mathematical-result",
                format!(
                    "results differ from the cursor model computed without machine-word wrap-around (start {}, length {}): after {} of {} calls none of the candidates fits: {:?}",
                    cfg.start, cfg.len, r.best_depth, ops.len(), stuck
                ),
            ));
            return (out, facts);
        }
    }
    // into_seq_iter: the first values of the remainder
    if let Some(items) = &rec.seq_items {
        let got: Vec<i128> = items.iter().map(&pos).collect();
        let c0 = delivered.min(len);
        let want: Vec<i128> = (0..items.len() as u128)
            .map(|j| (c0 + j) as i128)
            .collect();
        let within = got.iter().all(|&g| g >= 0 && (g as u128) < len);
        let ok = if cfg.kind.is_zst() {
            // zero-sized elements: judged by count
            let want = (len - c0).min(match cfg.terminal {
                Terminal::IntoSeq(mm) => mm as u128,
                _ => 0,
            });
            if facts.has_skip {
                items.len() as u128 <= want
            } else {
                items.len() as u128 == want
            }
        } else if facts.has_skip {
            // an ordered run of undelivered positions
            within && got.windows(2).all(|w| w[1] == w[0] + 1) && got.first().map(|&g| g as u128 >= c0).unwrap_or(true)
        } else {
            let expected_count = (len - c0).min(match cfg.terminal {
                Terminal::IntoSeq(mm) => mm as u128,
                _ => 0,
            });
            within && got == want && items.len() as u128 == expected_count
        };
        if !ok {
            out.push(f(
                p,
                "wrong-remainder",
                format!(
                    "into_seq_iter yielded positions {:?} (values {:?}); {} positions were delivered of {} (start {})",
                    got,
                    items.iter().map(|o| o.raw).collect::<Vec<_>>(),
                    delivered,
                    len,
                    cfg.start
                ),
            ));
        }
    }
    if let Some(msg) = &rec.terminal_panic {
        out.push(f(p, "unexpected-panic", format!("terminal action panicked: {msg}")));
    }
    facts.n_deliveries = delivered.min(1_000_000) as usize;
    (out, facts)
}

// ---------------------------------------------------------------------------------------------
// C19: several iterators over one collection. Every iterator, looked at alone, must behave like
// a single sequential cursor (the original and fresh ones from position 0, a clone from the
// original's position at the time of the clone call).

pub fn evaluate_c19(cfg: &RunCfg, rec: &RunRecord) -> (Vec<Finding>, Facts) {
    let len = cfg.len;
    let (_, facts_all) = evaluate_single(
        cfg,
        &RunRecord {
            calls: vec![],
            seq_items: None,
            ..rec.clone()
        },
    );
    let mut facts = facts_all;
    facts.n_calls = rec.calls.len();
    let mut out: Vec<Finding> = Vec::new();
    if let Some(v) = &rec.sim.verdict {
        out.push(f("C19", "hang", format!("the run did not terminate: {:?}", v)));
        return (out, facts);
    }
    if rec.sim.aborted {
        return (out, facts);
    }
    let mut ids: Vec<u32> = rec.calls.iter().map(|c| c.iter).collect();
    ids.sort();
    ids.dedup();
    let orig_calls: Vec<&Call> = rec.calls.iter().filter(|c| c.iter == 0).collect();
    for id in ids {
        let calls: Vec<Call> = rec
            .calls
            .iter()
            .filter(|c| c.iter == id)
            .filter(|c| !matches!(c.kind, CallKind::CloneIter | CallKind::FreshIter))
            .cloned()
            .collect();
        facts.n_deliveries += calls.iter().map(delivered_count).sum::<usize>();
        let creation = rec
            .calls
            .iter()
            .find(|c| c.iter == id && matches!(c.kind, CallKind::CloneIter | CallKind::FreshIter));
        let role = match creation.map(|c| c.kind) {
            None => "original",
            Some(CallKind::CloneIter) => "clone",
            _ => "fresh",
        };
        // candidate start positions
        let mut candidates: Vec<usize> = vec![0];
        if let (Some(cr), "clone") = (creation, role) {
            let cursor = |pred: &dyn Fn(&Call) -> bool| -> usize {
                let mut delivered = 0usize;
                let mut ended = false;
                for c in orig_calls.iter().filter(|c| pred(c)) {
                    delivered += delivered_count(c);
                    if (c.kind.is_pull() && c.res == Res::End) || c.kind == CallKind::Skip {
                        ended = true;
                    }
                }
                if ended {
                    len
                } else {
                    delivered.min(len)
                }
            };
            let lo = cursor(&|c: &Call| c.ret < cr.invoke);
            let hi = cursor(&|c: &Call| c.invoke < cr.ret);
            candidates = (lo.min(hi)..=hi.max(lo)).collect();
        }
        let mut best: Option<Vec<Finding>> = None;
        for &c0 in &candidates {
            let mut sub_calls = Vec::new();
            if c0 > 0 {
                // positions below c0 count as delivered before the iterator existed
                sub_calls.push(Call {
                    iter: id,
                    tid: 99,
                    kind: CallKind::Chunk,
                    arg: c0,
                    invoke: 0,
                    ret: 1,
                    res: Res::Chunk {
                        begin: 0,
                        announced: c0,
                        items: vec![],
                        lens: vec![],
                        exhausted: false,
                        impossible: false,
                        skipped: 0,
                        skip_at: 0,
                        finish: 0,
                        finish_count: None,
                        finish_last: None,
                        hint_bad: None,
                    },
                });
            }
            sub_calls.extend(calls.iter().cloned());
            let sub = RunRecord {
                calls: sub_calls,
                seq_items: if id == 0 { rec.seq_items.clone() } else { None },
                ..rec.clone()
            };
            let mut sub_cfg = cfg.clone();
            sub_cfg.prop = "C19-single".into();
            let (fs, fx) = evaluate_single(&sub_cfg, &sub);
            if fx.lin_checked {
                facts.lin_checked = true;
                facts.lin_states += fx.lin_states;
            }
            let fs: Vec<Finding> = fs.into_iter().filter(|x| x.prop != "C15").collect();
            if fs.is_empty() {
                best = Some(vec![]);
                break;
            }
            if best.as_ref().map(|b| fs.len() < b.len()).unwrap_or(true) {
                best = Some(fs);
            }
        }
        if let Some(fs) = best {
            if let Some(first) = fs.first() {
                out.push(f(
                    "C19",
                    &format!("{role}:{}", first.class),
                    format!(
                        "iterator #{id} ({role}; possible start positions {:?}) does not behave like an independent cursor over the collection: [{}] {}",
                        candidates, first.prop, first.msg
                    ),
                ));
                break;
            }
        }
    }
    (out, facts)
}
