//! Seeded workload generation (swarm style): every run draws its own source kind, size,
//! thread count, operation mix, scheduling strategy and fault plan from one integer.

use crate::elems::Hint;
use crate::rng::{mix, Rng};
use crate::sim::{Freeze, SimCfg, Strategy};
use crate::work::*;

#[derive(Clone, Debug)]
pub struct GenOpts {
    pub kinds: Vec<Kind>,
    pub max_threads: usize,
    pub min_threads: usize,
    pub max_len: usize,
    /// weights of the operation classes
    pub w_single: u32,
    pub w_chunk: u32,
    pub w_buf: u32,
    pub w_loop: u32,
    pub w_composite: u32,
    pub w_query: u32,
    pub w_skip: u32,
    pub w_stop: u32,
    pub max_ops: usize,
    /// every thread ends with a Drain
    pub drain: bool,
    pub extra_max: u32,
    /// chance (percent) that a chunk is only partly consumed
    pub partial_pct: u64,
    pub pre_pct: u64,
    pub into_seq_pct: u64,
    pub into_seq_all: bool,
    pub freeze_pct: u64,
    pub stale_pct: u64,
    pub panic_sites: Vec<PanicSite>,
    pub heap_pct: u64,
    pub targeted_bias: bool,
    pub call_granular: bool,
    /// if call_granular: percentage of the runs that really are (the others are fine-grained)
    pub call_granular_pct: u64,
    pub multi_iter: bool,
    /// chance (percent) that a chunk size is at the edge of usize (known-size kinds only)
    pub huge_pct: u64,
    /// chance (percent) that a wrapped iterator is not fused
    pub nonfused_pct: u64,
    /// chance (percent) that the exact size hint of a wrapped iterator under-reports
    pub short_hint_pct: u64,
    /// chance (percent) that the caller panics while it holds a partly consumed chunk
    pub consumer_panic_pct: u64,
    /// chance (percent) that a one-shot chunk pull asks for zero elements (a no-op by
    /// documentation)
    pub zero_pct: u64,
    /// chance (percent) that the destructor of one element panics
    pub drop_panic_pct: u64,
    /// chance (percent) that a per-thread iterator operation is `ids_and_values().nth(k)`
    pub wrapper_nth_pct: u64,
    /// chance (percent) that a ONE-SHOT chunk pull on a wrapped iterator asks for a size at the
    /// edge of usize ("give me the rest"); only where the known finding K2 (ticket wrap-around
    /// after such a request) cannot be mistaken for a violation of the property checked
    pub huge_iter_oneshot_pct: u64,
    /// chance (percent) that the closure passed to for_each / fold panics at its k-th call
    pub closure_panic_pct: u64,
    /// chance (percent) that a thread executes the tail of its list from a destructor while it
    /// unwinds from a panic of its own
    pub in_unwind_pct: u64,
    /// chance (percent) that a range ends at or just below usize::MAX (short ranges: the known
    /// finding K1 needs more than 2^62 elements)
    pub high_range_pct: u64,
    /// chance (percent) that the k-th `Clone::clone` of an element panics (cloned() kinds)
    pub clone_panic_pct: u64,
}

impl GenOpts {
    pub fn base() -> Self {
        GenOpts {
            kinds: Kind::ALL.to_vec(),
            max_threads: 4,
            min_threads: 1,
            max_len: 12,
            w_single: 30,
            w_chunk: 20,
            w_buf: 20,
            w_loop: 10,
            w_composite: 0,
            w_query: 0,
            w_skip: 0,
            w_stop: 0,
            max_ops: 5,
            drain: true,
            extra_max: 2,
            partial_pct: 30,
            pre_pct: 10,
            into_seq_pct: 40,
            into_seq_all: false,
            freeze_pct: 0,
            stale_pct: 0,
            panic_sites: vec![],
            heap_pct: 0,
            targeted_bias: false,
            call_granular: false,
            call_granular_pct: 100,
            multi_iter: false,
            huge_pct: 0,
            nonfused_pct: 0,
            short_hint_pct: 0,
            consumer_panic_pct: 0,
            zero_pct: 0,
            drop_panic_pct: 0,
            wrapper_nth_pct: 0,
            huge_iter_oneshot_pct: 0,
            closure_panic_pct: 0,
            in_unwind_pct: 0,
            high_range_pct: 0,
            clone_panic_pct: 0,
        }
    }
}

pub const ITER_KINDS: [Kind; 4] = [
    Kind::IterOwned,
    Kind::IterRef,
    Kind::ClonedIter,
    Kind::CopiedIter,
];
pub const CONSUMING: [Kind; 5] = [
    Kind::Vec,
    Kind::Array,
    Kind::IterOwned,
    Kind::VecZst,
    Kind::ArrayZst,
];

/// Zero-sized elements have no identity: only pulling methods that report an index are used.
pub fn zst_ops(ops: &mut [Op]) {
    for op in ops.iter_mut() {
        *op = match *op {
            Op::Next => Op::NextIdVal,
            Op::Values(m) => Op::IdsValues(m),
            Op::ForEach(n) | Op::Fold(n) => Op::EnumForEach(n),
            Op::Drain(Method::Next, e) => Op::Drain(Method::NextIdVal, e),
            Op::Drain(Method::Values, e) => Op::Drain(Method::IdsValues, e),
            other => other,
        };
    }
}

pub fn opts_for(prop: &str) -> GenOpts {
    let mut o = GenOpts::base();
    match prop {
        "C01" => {
            o.high_range_pct = 10;
            // wrapped iterators whose exact size hint is wrong (F7c / F7d)
            o.short_hint_pct = 8;
            o.in_unwind_pct = 5;
            // operation classes that do not concern this property directly, at a low weight:
            // what they do to the shared state must not disturb what the property states
            o.w_query = 4;
            o.w_composite = 12;
            o.stale_pct = 25;
            // sources that would yield again after their first None: the source sequence ends
            // there, and nothing may be delivered twice (seeded change C01-r7)
            o.nonfused_pct = 15;
        }
        "C02" => {
            o.high_range_pct = 10;
            // wrapped iterators whose exact size hint is wrong (F7c / F7d)
            o.short_hint_pct = 15;
            o.in_unwind_pct = 4;
            // operation classes that do not concern this property directly, at a low weight:
            // what they do to the shared state must not disturb what the property states
            o.w_query = 4;
            o.w_skip = 3;
            o.nonfused_pct = 10;
            // "take the rest" chunk sizes at the edge of usize (known-size kinds only)
            o.huge_pct = 4;
            o.w_composite = 12;
            o.w_single = 25;
            o.w_chunk = 25;
            o.w_buf = 25;
            o.stale_pct = 25;
            // other Iterator methods of the per-thread wrappers: the pair they return must be an
            // element with its own position as well (seeded change C02-r8)
            o.wrapper_nth_pct = 35;
        }
        "C03" => {
            // a clone that panics in the middle of a chunk must not leave anything behind that the
            // next chunk then contains (seeded change C03-r11)
            o.clone_panic_pct = 25;
            o.high_range_pct = 10;
            o.in_unwind_pct = 4;
            // operation classes that do not concern this property directly, at a low weight:
            // what they do to the shared state must not disturb what the property states
            o.w_query = 4;
            o.nonfused_pct = 10;
            // "take the rest" chunk sizes at the edge of usize (known-size kinds only)
            o.huge_pct = 4;
            o.w_single = 10;
            o.w_chunk = 40;
            o.w_buf = 40;
            o.w_loop = 3;
            o.partial_pct = 50;
            o.max_ops = 6;
            o.stale_pct = 25;
            // a skip_to_end by another thread while a chunk is being filled (seeded change C03-r7)
            o.w_skip = 4;
        }
        "C04" => {
            o.high_range_pct = 10;
            o.in_unwind_pct = 4;
            // operation classes that do not concern this property directly, at a low weight:
            // what they do to the shared state must not disturb what the property states
            o.zero_pct = 3;
            o.w_query = 12;
            o.w_stop = 3;
            // the cursor model includes skip_to_end: the order clauses of C04 hold for histories
            // with skips as well (seeded change C04-r3)
            o.w_skip = 4;
            o.extra_max = 3;
            // abandoned buffered chunks followed by further pulls on the same handle
            o.w_buf = 30;
            o.partial_pct = 45;
            o.max_ops = 6;
            o.min_threads = 1;
            // "take the rest" pulls: chunk sizes at the edge of usize on known-size kinds; the
            // cursor must stay at the end afterwards (seeded change C04-r5)
            o.huge_pct = 6;
        }
        "C05" => {
            o.high_range_pct = 10;
            o.in_unwind_pct = 5;
            // operation classes that do not concern this property directly, at a low weight:
            // what they do to the shared state must not disturb what the property states
            o.w_composite = 6;
            o.nonfused_pct = 40;
            o.short_hint_pct = 25;
            o.w_query = 10;
            o.extra_max = 24;
            o.max_ops = 3;
            // an end reported while another thread is inside skip_to_end (seeded change C05-r8)
            o.w_skip = 5;
        }
        "C06" => {
            // wrapped iterators whose exact size hint is wrong (F7c / F7d)
            o.short_hint_pct = 8;
            o.in_unwind_pct = 4;
            // operation classes that do not concern this property directly, at a low weight:
            // what they do to the shared state must not disturb what the property states
            o.w_composite = 6;
            o.zero_pct = 3;
            // "take the rest" chunk sizes at the edge of usize (known-size kinds only)
            o.huge_pct = 4;
            o.w_skip = 14;
            o.w_query = 10;
            o.extra_max = 14;
            o.max_ops = 6;
        }
        "C07" => {
            // wrapped iterators whose exact size hint is wrong (F7c / F7d)
            o.short_hint_pct = 8;
            o.in_unwind_pct = 4;
            // operation classes that do not concern this property directly, at a low weight:
            // what they do to the shared state must not disturb what the property states
            o.w_composite = 6;
            o.kinds = ITER_KINDS.to_vec();
            o.w_skip = 5;
            // length queries must not touch the wrapped iterator while somebody else may be
            // using it (seeded change C07-r6: try_get_len consulting size_hint "when idle")
            o.w_query = 12;
            o.min_threads = 2;
            o.targeted_bias = true;
            o.stale_pct = 25;
        }
        "C08" => {
            o.zero_pct = 3;
            // wrapped iterators whose exact size hint is wrong (F7c / F7d)
            o.short_hint_pct = 8;
            o.in_unwind_pct = 5;
            // operation classes that do not concern this property directly, at a low weight:
            // what they do to the shared state must not disturb what the property states
            o.w_query = 4;
            // "take the rest" chunk sizes at the edge of usize (known-size kinds only)
            o.huge_pct = 4;
            o.kinds = CONSUMING.to_vec();
            o.w_skip = 6;
            o.w_stop = 6;
            o.w_composite = 6;
            o.partial_pct = 50;
            o.pre_pct = 25;
            o.into_seq_pct = 50;
            o.drain = false;
            o.consumer_panic_pct = 12;
            o.drop_panic_pct = 8;
        }
        "C09" => {
            o.zero_pct = 3;
            // wrapped iterators whose exact size hint is wrong (F7c / F7d)
            o.short_hint_pct = 8;
            o.in_unwind_pct = 4;
            o.w_skip = 6;
            o.w_stop = 8;
            o.w_composite = 8;
            o.w_query = 4;
            o.freeze_pct = 50;
            o.min_threads = 2;
            o.stale_pct = 15;
            o.drain = false;
            // "give me the rest" on a wrapped iterator: whatever happens to the caller, the
            // others must still return (seeded change C09-r8)
            o.huge_pct = 4;
            o.huge_iter_oneshot_pct = 30;
            o.pre_pct = 20;
            // a source that never ends by itself and is stopped with skip_to_end: the skip must
            // return, and so must every pull afterwards (seeded change C09-r10)
            let mut kinds = Kind::ALL.to_vec();
            kinds.push(Kind::EndlessIter);
            kinds.push(Kind::EndlessIter);
            o.kinds = kinds;
        }
        "C10" => {
            o.high_range_pct = 10;
            o.zero_pct = 3;
            // wrapped iterators whose exact size hint is wrong (F7c / F7d)
            o.short_hint_pct = 8;
            o.in_unwind_pct = 4;
            // operation classes that do not concern this property directly, at a low weight:
            // what they do to the shared state must not disturb what the property states
            o.w_composite = 6;
            o.w_query = 4;
            o.w_skip = 6;
            o.w_stop = 10;
            o.into_seq_pct = 100;
            o.into_seq_all = true;
            o.huge_pct = 8;
            o.pre_pct = 40;
            o.drain = false;
        }
        "C11" => {
            // sources that would yield again after their first None (F7b)
            o.nonfused_pct = 10;
            o.high_range_pct = 10;
            o.zero_pct = 3;
            o.in_unwind_pct = 4;
            // operation classes that do not concern this property directly, at a low weight:
            // what they do to the shared state must not disturb what the property states
            o.w_composite = 5;
            // "take the rest" chunk sizes at the edge of usize (known-size kinds only)
            o.huge_pct = 4;
            o.w_query = 40;
            o.w_skip = 6;
            o.w_stop = 4;
            o.max_ops = 6;
            o.drain = false;
            o.pre_pct = 30;
            // a concurrent iterator over values() of another one that is pulled directly as well:
            // what the outer one says about its length must still be true (seeded change C11-r7)
            let mut kinds = Kind::ALL.to_vec();
            kinds.push(Kind::NestedValues);
            kinds.push(Kind::NestedValues);
            o.kinds = kinds;
        }
        "C12" => {
            // sources that would yield again after their first None (F7b)
            o.nonfused_pct = 10;
            o.high_range_pct = 10;
            // wrapped iterators whose exact size hint is wrong (F7c / F7d)
            o.short_hint_pct = 8;
            o.in_unwind_pct = 5;
            // operation classes that do not concern this property directly, at a low weight:
            // what they do to the shared state must not disturb what the property states
            o.w_query = 4;
            // "take the rest" chunk sizes at the edge of usize (known-size kinds only)
            o.huge_pct = 4;
            o.w_composite = 60;
            o.w_single = 10;
            o.w_chunk = 5;
            o.w_buf = 5;
            o.w_loop = 3;
            o.max_ops = 3;
            o.stale_pct = 20;
        }
        "C13" => {
            // wrapped iterators whose exact size hint is wrong (F7c / F7d)
            o.short_hint_pct = 8;
            o.in_unwind_pct = 4;
            // "take the rest" chunk sizes at the edge of usize (known-size kinds only)
            o.huge_pct = 4;
            o.kinds = vec![
                Kind::ClonedSlice,
                Kind::ClonedIter,
                Kind::CopiedSlice,
                Kind::CopiedIter,
                Kind::ClonedStampSlice,
            ];
            o.w_composite = 10;
            o.w_query = 12;
            o.w_skip = 6;
            o.w_stop = 5;
            o.drain = false;
            o.pre_pct = 30;
            o.partial_pct = 40;
            o.call_granular = true;
            o.call_granular_pct = 50;
            // next_chunk(0) is a no-op on the underlying iterator, so it must be one on the
            // adaptor (seeded change C13-r7)
            o.zero_pct = 6;
        }
        "C19" => {
            o.zero_pct = 3;
            // "take the rest" chunk sizes at the edge of usize (known-size kinds only)
            o.huge_pct = 4;
            o.kinds = vec![
                Kind::Slice,
                Kind::SliceRef,
                Kind::VecRef,
                Kind::ArrayRef,
                Kind::Range,
                Kind::RangeRef,
                Kind::SliceNoClone,
            ];
            o.w_query = 10;
            o.w_skip = 4;
            o.w_stop = 4;
            o.drain = false;
            o.pre_pct = 20;
            o.min_threads = 2;
            o.max_threads = 3;
            o.multi_iter = true;
        }
        "C15" => {
            o.zero_pct = 3;
            // wrapped iterators whose exact size hint is wrong (F7c / F7d)
            o.short_hint_pct = 8;
            o.in_unwind_pct = 5;
            // operation classes that do not concern this property directly, at a low weight:
            // what they do to the shared state must not disturb what the property states
            o.w_query = 4;
            // "take the rest" chunk sizes at the edge of usize (known-size kinds only)
            o.huge_pct = 4;
            o.kinds = CONSUMING.to_vec();
            o.w_skip = 6;
            o.w_stop = 6;
            o.w_composite = 6;
            o.partial_pct = 50;
            o.pre_pct = 25;
            o.into_seq_pct = 50;
            o.drain = false;
            o.heap_pct = 70;
            // panics of the caller's own code (its closure; or while it holds a chunk) unwind
            // through the crate, which must release what it had reserved (seeded change C15-r8)
            o.w_composite = 14;
            o.consumer_panic_pct = 8;
            o.closure_panic_pct = 10;
        }
        "C17" => {
            o.high_range_pct = 10;
            o.in_unwind_pct = 4;
            // operation classes that do not concern this property directly, at a low weight:
            // what they do to the shared state must not disturb what the property states
            o.huge_pct = 4;
            o.zero_pct = 3;
            o.w_skip = 6;
            o.w_composite = 8;
            o.w_query = 6;
            o.w_stop = 4;
            o.drain = false;
            o.pre_pct = 25;
            o.heap_pct = 30;
        }
        "C18" => {
            // operation classes that do not concern this property directly, at a low weight:
            // what they do to the shared state must not disturb what the property states
            o.w_query = 4;
            o.huge_pct = 4;
            o.panic_sites = vec![PanicSite::WrappedNext, PanicSite::Clone, PanicSite::Closure];
            // a panic while another thread has called skip_to_end (seeded change C18-r7)
            o.w_skip = 5;
            o.w_composite = 15;
            o.min_threads = 2;
            o.max_threads = 3;
            o.max_len = 6;
        }
        _ => {}
    }
    o
}

fn chunk_size(rng: &mut Rng, len: usize) -> usize {
    if len > 200 {
        let huge = [64, 100, 255, 256, 257, 1024, 1025, len / 3, len - 1, len, len + 1];
        return (*rng.pick(&huge)).max(1);
    }
    if len > 24 {
        // "large" runs: sizes around powers of two and around the length
        let big = [
            1,
            7,
            8,
            15,
            16,
            17,
            31,
            32,
            33,
            63,
            64,
            65,
            len / 2,
            len - 1,
            len,
            len + 1,
        ];
        return (*rng.pick(&big)).max(1);
    }
    let cands = [
        1,
        2,
        3,
        len.saturating_sub(1),
        len,
        len + 1,
        len + 2,
        17,
        2,
        3,
        4,
    ];
    loop {
        let c = *rng.pick(&cands);
        if c >= 1 {
            return c;
        }
    }
}

fn pick_len(rng: &mut Rng, kind: Kind, max_len: usize) -> usize {
    if max_len >= 12 && rng.chance(1, 250) && !kind.is_array() {
        // very few "very large" runs (the sizes the repository's own tests use)
        return *rng.pick(&[257usize, 1000, 1024, 2141]);
    }
    if max_len >= 12 && rng.chance(4, 100) {
        // a few "large" runs: a defect that only shows beyond some size threshold
        // (a chunk of more than 32 elements, a length above 64, ...) must not hide in the small scope
        let l = *rng.pick(&[31usize, 32, 33, 63, 64, 65, 100, 129]);
        if kind.is_array() {
            return *rng.pick(&[33usize, 64]);
        }
        return l;
    }
    let l = match rng.below(10) {
        0 => 0,
        1 => 1,
        2 => 2,
        _ => rng.range(0, max_len),
    };
    if kind.is_array() {
        // nearest supported array length
        *Kind::array_lens()
            .iter()
            .min_by_key(|&&a| (a as i64 - l as i64).abs())
            .expect("non-empty")
    } else {
        l
    }
}

fn method(rng: &mut Rng, len: usize) -> Method {
    if len > 200 {
        return if rng.chance(1, 2) {
            Method::Chunk(chunk_size(rng, len))
        } else {
            Method::Buf(chunk_size(rng, len))
        };
    }
    match rng.below(6) {
        0 => Method::Next,
        1 => Method::NextIdVal,
        2 => Method::Chunk(chunk_size(rng, len)),
        3 => Method::Buf(chunk_size(rng, len)),
        4 => Method::Values,
        _ => Method::IdsValues,
    }
}

/// chunk sizes at the edge of usize (used by C10 on known-size kinds; C16 enumerates them)
fn huge_chunk_size(rng: &mut Rng) -> usize {
    *rng.pick(&[
        usize::MAX,
        usize::MAX / 2 + 1,
        usize::MAX - 7,
        usize::MAX / 2,
    ])
}

fn gen_ops(
    rng: &mut Rng,
    o: &GenOpts,
    len: usize,
    is_thread: bool,
    huge_pct: u64,
    huge_oneshot_pct: u64,
) -> Vec<Op> {
    let n = rng.range(0, o.max_ops);
    let weights = [
        o.w_single,
        o.w_chunk,
        o.w_buf,
        o.w_loop,
        o.w_composite,
        o.w_query,
        o.w_skip,
        if is_thread { o.w_stop } else { 0 },
    ];
    let mut ops = Vec::new();
    let mut has_buf = false;
    for _ in 0..n {
        match rng.weighted(&weights) {
            0 => ops.push(if rng.chance(1, 2) {
                Op::Next
            } else {
                Op::NextIdVal
            }),
            1 => {
                let huge = rng.chance(huge_oneshot_pct, 100);
                let c = if huge {
                    huge_chunk_size(rng)
                } else if o.zero_pct > 0 && rng.chance(o.zero_pct, 100) {
                    0
                } else {
                    chunk_size(rng, len)
                };
                let k = if rng.chance(o.partial_pct, 100) {
                    rng.below(c.min(20) + 1)
                } else {
                    usize::MAX
                };
                ops.push(Op::Chunk(c, k));
            }
            2 => {
                if !has_buf || rng.chance(1, 5) {
                    let c = if rng.chance(huge_pct, 100) {
                        huge_chunk_size(rng)
                    } else {
                        chunk_size(rng, len)
                    };
                    ops.push(Op::BufNew(c));
                    has_buf = true;
                }
                let k = if rng.chance(o.partial_pct, 100) {
                    rng.below(4)
                } else {
                    usize::MAX
                };
                ops.push(Op::BufNext(k));
                if rng.chance(1, 8) {
                    ops.push(Op::BufDrop);
                    has_buf = false;
                }
            }
            3 if o.wrapper_nth_pct > 0 && rng.chance(o.wrapper_nth_pct, 100) => {
                ops.push(Op::IdsValuesNth(rng.range(1, 3)));
            }
            3 => {
                let m = rng.range(1, 3);
                ops.push(if rng.chance(1, 2) {
                    Op::Values(m)
                } else {
                    Op::IdsValues(m)
                });
            }
            4 => {
                let c = if rng.chance(huge_pct, 100) {
                    huge_chunk_size(rng)
                } else if rng.chance(1, 3) {
                    1
                } else {
                    chunk_size(rng, len)
                };
                ops.push(match rng.below(3) {
                    0 => Op::ForEach(c),
                    1 => Op::EnumForEach(c),
                    _ => Op::Fold(c),
                });
                // the same thread observes the exhaustion afterwards
                ops.push(Op::Next);
            }
            5 => ops.push(if rng.chance(1, 2) {
                Op::Len
            } else {
                Op::HasMore
            }),
            6 => ops.push(Op::Skip),
            _ => {
                ops.push(Op::Stop);
                break;
            }
        }
    }
    ops
}

fn strategy(rng: &mut Rng, targeted_bias: bool) -> Strategy {
    let r = rng.below(100);
    if targeted_bias && r < 40 {
        return Strategy::Targeted;
    }
    match r % 20 {
        0..=5 => Strategy::Uniform,
        6..=7 => Strategy::Sticky(50),
        8..=9 => Strategy::Sticky(80),
        10..=11 => Strategy::Sticky(95),
        12..=13 => Strategy::Pct(1),
        14..=15 => Strategy::Pct(2),
        16 => Strategy::Pct(3),
        _ => Strategy::Targeted,
    }
}

/// The configuration of run number `index` of a check: a pure function of (prop, base seed, index).
pub fn generate(prop: &str, base_seed: u64, index: u64) -> RunCfg {
    if prop == "C16" {
        return generate_c16(base_seed, index, C16_SCHEDULES_PER_POINT);
    }
    let mut o = opts_for(prop);
    if index >= DEEP_FROM {
        // run indices beyond the quick budget (thorough tier): larger scopes
        o.max_len = if o.max_len <= 6 { 8 } else { 24 };
        o.max_threads = (o.max_threads + 2).min(6);
        o.max_ops += 2;
    }
    generate_with(prop, &o, base_seed, index)
}

/// C18: the crash-point grid (site, len, k), enumerated by the run index; everything else is sampled.
pub fn c18_grid() -> Vec<(PanicSite, usize, u32)> {
    let mut v = Vec::new();
    for site in [PanicSite::WrappedNext, PanicSite::Clone, PanicSite::Closure] {
        for len in 0..=6usize {
            for k in 0..=(len as u32 + 1) {
                v.push((site, len, k));
            }
        }
    }
    v
}

pub fn generate_with(prop: &str, o: &GenOpts, base_seed: u64, index: u64) -> RunCfg {
    let run_seed = mix(&[base_seed, index, prop_code(prop)]);
    let mut rng = Rng::new(run_seed);
    let mut o = o.clone();
    let mut crash_point = None;
    if !o.panic_sites.is_empty() {
        let grid = c18_grid();
        let (site, len, k) = grid[(index % grid.len() as u64) as usize];
        crash_point = Some((site, len, k));
        match site {
            PanicSite::WrappedNext => {
                o.kinds = vec![
                    Kind::IterOwned,
                    Kind::IterRef,
                    Kind::ClonedIter,
                    Kind::CopiedIter,
                    Kind::PlainIter,
                ]
            }
            PanicSite::Clone => o.kinds = vec![Kind::ClonedSlice, Kind::ClonedIter],
            PanicSite::Closure => o.w_composite = 60,
            PanicSite::Consumer | PanicSite::ElemDrop => {}
        }
    }
    let o = &o;
    let kind = *rng.pick(&o.kinds);
    let mut len = pick_len(&mut rng, kind, o.max_len);
    if let Some((_, l, _)) = crash_point {
        len = l;
        if kind.is_array() && !Kind::array_lens().contains(&len) {
            len = 6;
        }
    }
    let hint = *rng.pick(&[Hint::Exact, Hint::Exact, Hint::Inexact, Hint::Unbounded]);
    let mut start = *rng.pick(&[0usize, 0, 3, 1000]);
    if kind.is_range() && o.high_range_pct > 0 && rng.chance(o.high_range_pct, 100) {
        // values at the top of usize: `start + index + chunk size` must not be computed carelessly
        start = usize::MAX - len - *rng.pick(&[0usize, 1, 5]);
    }
    let nthreads = rng.range(o.min_threads, o.max_threads);
    // sizes at the edge of usize only where the length is known (K2 covers the unknown-size case)
    let huge_pct = if kind.known_size() { o.huge_pct } else { 0 };
    // a one-shot chunk pull allocates nothing in advance, also over a wrapped iterator
    let huge_oneshot_pct = if kind.known_size() {
        o.huge_pct
    } else {
        o.huge_iter_oneshot_pct
    };
    let mut threads = Vec::new();
    for _ in 0..nthreads {
        // (wrapped iterators: such a request only in the sequential prefix; concurrent with
        // other pulls it runs into the known finding K2, the ticket wrap-around)
        let mut ops = gen_ops(
            &mut rng,
            o,
            len,
            true,
            huge_pct,
            if kind.known_size() { huge_oneshot_pct } else { 0 },
        );
        let stopped = ops.last() == Some(&Op::Stop);
        if o.drain && !stopped {
            let extra = if rng.chance(1, 3) {
                rng.range(0, o.extra_max as usize) as u32
            } else {
                rng.range(0, (o.extra_max as usize).min(2)) as u32
            };
            ops.push(Op::Drain(method(&mut rng, len), extra));
        } else if !o.drain && !stopped && rng.chance(1, 2) {
            let extra = rng.range(0, o.extra_max as usize) as u32;
            ops.push(Op::Drain(method(&mut rng, len), extra));
        }
        if o.in_unwind_pct > 0 && !ops.is_empty() && rng.chance(o.in_unwind_pct, 100) {
            // "finish the work on drop" guards: pulls issued while the thread is unwinding
            let at = rng.below(ops.len());
            if !ops[..at].contains(&Op::Stop) {
                ops.insert(at, Op::InUnwind);
            }
        }
        if kind.is_nested() {
            // elements leave the base iterator behind the outer iterator's back
            let k = rng.range(0, 3);
            for _ in 0..k {
                let at = rng.below(ops.len() + 1);
                if !ops[..at].contains(&Op::Stop) {
                    ops.insert(at, Op::BasePull);
                }
            }
        }
        if o.multi_iter && rng.chance(2, 3) {
            // C19: switch to a clone of the original / a fresh iterator somewhere in the list
            let k = rng.range(1, 2);
            for _ in 0..k {
                let at = rng.below(ops.len() + 1);
                let m = match rng.below(5) {
                    0 | 1 => Op::UseClone,
                    2 | 3 => Op::UseFresh,
                    _ => Op::UseOriginal,
                };
                if !ops[..at].contains(&Op::Stop) {
                    ops.insert(at, m);
                }
            }
        }
        threads.push(ops);
    }
    let pre = if rng.chance(o.pre_pct, 100) {
        // (sequential prefix: on a wrapped iterator also buffered / for_each / fold requests for
        // "the rest", which panic by documentation - they allocate chunk_size slots)
        let mut p = gen_ops(
            &mut rng,
            o,
            len,
            false,
            if kind.known_size() { huge_pct } else { o.huge_iter_oneshot_pct },
            huge_oneshot_pct,
        );
        p.retain(|op| !matches!(op, Op::Stop));
        p
    } else {
        vec![]
    };
    let mut threads = threads;
    let mut pre = pre;
    if kind.is_zst() {
        for t in threads.iter_mut() {
            zst_ops(t);
        }
        zst_ops(&mut pre);
    }
    let terminal = if rng.chance(o.into_seq_pct, 100) {
        if o.into_seq_all || rng.chance(2, 3) {
            Terminal::IntoSeq(usize::MAX)
        } else {
            Terminal::IntoSeq(rng.below(len + 1))
        }
    } else {
        Terminal::Drop
    };
    let mut sim = SimCfg::simple(nthreads, mix(&[run_seed, 0x5eed]));
    sim.strategy = strategy(&mut rng, o.targeted_bias);
    sim.step_cap = 60_000;
    sim.call_granular = o.call_granular && rng.chance(o.call_granular_pct, 100);
    if nthreads >= 2 && rng.chance(o.freeze_pct, 100) {
        let forever = kind.known_size() || rng.chance(1, 3);
        sim.freeze = Some(Freeze {
            tid: rng.below(nthreads),
            at: rng.range(1, 30) as u32,
            steps: if forever {
                None
            } else {
                Some(rng.range(5, 200) as u32)
            },
        });
    }
    if rng.chance(o.stale_pct, 100) {
        sim.stale_permille = *rng.pick(&[50u32, 150, 400]);
        sim.stale_seed = mix(&[run_seed, 0x57a1e]);
    }
    let mut panic = crash_point.map(|(site, _, k)| (site, k));
    if panic.is_none() && o.consumer_panic_pct > 0 && rng.chance(o.consumer_panic_pct, 100) {
        // the caller panics after its k-th chunk element (seeded change C08-r5)
        panic = Some((PanicSite::Consumer, rng.range(0, (len.max(1) - 1).min(3)) as u32));
    }
    if panic.is_none()
        && o.clone_panic_pct > 0
        && kind.is_cloned()
        && rng.chance(o.clone_panic_pct, 100)
    {
        panic = Some((PanicSite::Clone, rng.range(0, len.max(1) + 2) as u32));
    }
    if panic.is_none() && o.closure_panic_pct > 0 && rng.chance(o.closure_panic_pct, 100) {
        panic = Some((PanicSite::Closure, rng.range(0, len.max(1)) as u32));
    }
    if panic.is_none()
        && o.drop_panic_pct > 0
        && len >= 1
        && kind.consuming()
        && !kind.is_zst()
        && rng.chance(o.drop_panic_pct, 100)
    {
        // the destructor of one element panics (seeded change C08-r7)
        panic = Some((PanicSite::ElemDrop, rng.range(0, len - 1) as u32));
    }
    let heap_bytes = if rng.chance(o.heap_pct, 100) {
        *rng.pick(&[8usize, 24, 4096])
    } else {
        0
    };
    let mut cfg = RunCfg {
        prop: prop.to_string(),
        run_seed,
        kind,
        len,
        start,
        range_end: None,
        hint,
        heap_bytes,
        pre,
        threads,
        terminal,
        panic,
        consume_nth: if rng.chance(25, 100) {
            rng.range(1, 2)
        } else {
            0
        },
        // the nth call comes first, or after one or two elements were taken with next()
        nth_at: match (run_seed >> 29) % 4 {
            0 | 1 => 0,
            2 => 1,
            _ => 2,
        },
        finish: if rng.chance(20, 100) {
            rng.range(1, 2) as u8
        } else {
            0
        },
        tail: {
            // non-fused wrapped iterator: after its first None (after `len` elements, which is
            // also what an exact size hint announces) it would yield further elements if it were
            // asked again; not followed by into_seq_iter, whose result for a non-fused source is
            // not specified
            let t = rng.range(1, 3);
            if o.nonfused_pct > 0
                && kind.is_iter()
                && terminal == Terminal::Drop
                && rng.chance(o.nonfused_pct, 100)
            {
                t
            } else {
                0
            }
        },
        hint_short: 0,
        hint_long: 0,
        sim,
    };
    // a source that yields more than its exact size hint announced (refilled after creation, or
    // a sloppy adaptor): the end may only be reported once the wrapped iterator returned None
    // (seeded change C05-r4)
    if o.short_hint_pct > 0
        && kind.is_iter()
        && hint == Hint::Exact
        && cfg.tail == 0
        && len >= 2
        && rng.chance(o.short_hint_pct, 100)
    {
        if rng.chance(60, 100) {
            cfg.hint_short = rng.range(1, len - 1);
        } else {
            // ... or fewer than announced (somebody else drained the queue)
            // (far more than the pulls past the end can make up for, in most cases)
            cfg.hint_long = *rng.pick(&[1usize, 2, 40, 100, 1000]);
        }
    }
    if kind.is_endless() {
        // nothing that runs "until the end", which only a skip_to_end brings about; no huge
        // one-shot chunk (it would try to collect the endless source)
        cfg.len = 1 << 40;
        cfg.hint = Hint::Unbounded;
        cfg.terminal = Terminal::Drop;
        cfg.tail = 0;
        cfg.hint_short = 0;
        cfg.hint_long = 0;
        let keep = |op: &Op| match op {
            Op::Drain(..) | Op::ForEach(_) | Op::EnumForEach(_) | Op::Fold(_) | Op::InUnwind => false,
            Op::Chunk(n, _) | Op::BufNew(n) => *n <= 64,
            _ => true,
        };
        cfg.pre.retain(keep);
        for t in cfg.threads.iter_mut() {
            t.retain(keep);
        }
    }
    if cfg.panic.is_some() {
        // one panic at a time: a second one inside the unwinding context would abort the process
        for t in cfg.threads.iter_mut() {
            t.retain(|op| *op != Op::InUnwind);
        }
    }
    if matches!(cfg.panic, Some((PanicSite::ElemDrop, _))) {
        // std's default `Iterator::last` (a fold that drops the previous candidate after the next
        // one has been built) itself loses the element it holds when that destructor panics:
        // the caller's loss, not the crate's. The rest of a chunk is dropped in these runs.
        cfg.finish = 0;
    }
    cfg
}

/// run indices from here on use the larger scopes of the thorough tier
pub const DEEP_FROM: u64 = 70_000;

pub fn prop_code(prop: &str) -> u64 {
    prop.bytes().fold(7u64, |a, b| a.wrapping_mul(131).wrapping_add(b as u64))
}

// ---------------------------------------------------------------------------------------------
// C16: the boundary grid (enumerated completely; only the schedules are sampled)

const M: usize = usize::MAX;
/// sampled two-thread schedules per grid point and pass (plus one sequential run)
pub const C16_SCHEDULES_PER_POINT: u64 = 4;
pub const RANGE_BOUNDS: [usize; 9] = [0, 1, 7, M / 2 - 1, M / 2, M / 2 + 1, M - 7, M - 1, M];
pub const SMALL_LENS: [usize; 4] = [0, 1, 3, 5];

#[derive(Clone, Copy, Debug)]
enum First {
    Chunk(usize),
    Buf(usize),
    ForEach0,
    EnumForEach0,
    Fold0,
}

fn chunk_sizes(len: usize) -> Vec<usize> {
    let mut v = vec![
        0,
        1,
        len.saturating_sub(1),
        len,
        len.saturating_add(1),
        M / 2,
        M - 7,
        M,
    ];
    v.sort();
    v.dedup();
    v
}

/// All grid points: (kind, start, end-or-len, first operation, skip in the tail?, terminal)
fn c16_sources() -> Vec<(Kind, usize, usize)> {
    let mut v = Vec::new();
    for &s in &RANGE_BOUNDS {
        for &e in &RANGE_BOUNDS {
            v.push((Kind::Range, s, e));
            v.push((Kind::RangeRef, s, e));
        }
    }
    for k in Kind::ALL {
        if k.is_range() {
            continue;
        }
        for &l in &SMALL_LENS {
            v.push((k, 0, l));
        }
    }
    v
}

pub fn c16_grid_size() -> u64 {
    let mut n = 0u64;
    for (k, s, e) in c16_sources() {
        let len = if k.is_range() { e.saturating_sub(s) } else { e };
        n += (chunk_sizes(len).len() as u64 * 2 + 3) * 4;
    }
    n
}

pub fn generate_c16(base_seed: u64, index: u64, schedules_per_point: u64) -> RunCfg {
    let per = schedules_per_point + 1;
    let point = index / per;
    let sched = index % per; // 0 = sequential
    let g = c16_grid_size();
    let mut p = point % g;
    // locate the grid point
    let mut chosen = None;
    for (k, s, e) in c16_sources() {
        let len = if k.is_range() { e.saturating_sub(s) } else { e };
        let cs = chunk_sizes(len);
        let firsts = cs.len() as u64 * 2 + 3;
        let here = firsts * 4;
        if p < here {
            let fi = p / 4;
            let tail = p % 4;
            let first = if fi < cs.len() as u64 {
                First::Chunk(cs[fi as usize])
            } else if fi < 2 * cs.len() as u64 {
                First::Buf(cs[(fi - cs.len() as u64) as usize])
            } else {
                match fi - 2 * cs.len() as u64 {
                    0 => First::ForEach0,
                    1 => First::EnumForEach0,
                    _ => First::Fold0,
                }
            };
            chosen = Some((k, s, e, len, first, tail));
            break;
        }
        p -= here;
    }
    let (kind, start, e, len, first, tail) = chosen.expect("grid point");
    let run_seed = mix(&[base_seed, index, prop_code("C16")]);
    let mut rng = Rng::new(run_seed);
    let with_skip = tail & 1 == 1;
    let into_seq = tail & 2 == 2;
    let first_ops: Vec<Op> = match first {
        First::Chunk(n) => vec![Op::Chunk(n, 2)],
        First::Buf(n) => {
            // wrapped iterators allocate chunk_size slots by documentation: sizes <= 4096 there
            let n = if kind.is_iter() { n.min(4096) } else { n };
            vec![Op::BufNew(n), Op::BufNext(2), Op::BufDrop]
        }
        First::ForEach0 => vec![Op::ForEach(0)],
        First::EnumForEach0 => vec![Op::EnumForEach(0)],
        First::Fold0 => vec![Op::Fold(0)],
    };
    let mut tail_a = vec![Op::Next, Op::Len, Op::NextIdVal];
    let mut tail_b = vec![
        Op::Chunk(2, usize::MAX),
        Op::BufNew(2),
        Op::BufNext(usize::MAX),
        Op::BufDrop,
        Op::HasMore,
    ];
    if with_skip {
        tail_b.push(Op::Skip);
        tail_b.push(Op::HasMore);
    }
    tail_a.push(Op::Next);
    tail_b.push(Op::NextIdVal);
    let (pre, threads) = if sched == 0 {
        let mut all = first_ops.clone();
        all.extend(tail_a.iter().cloned());
        all.extend(tail_b.iter().cloned());
        (all, vec![])
    } else {
        let mut a = first_ops.clone();
        a.extend(tail_a.iter().cloned());
        (vec![], vec![a, tail_b])
    };
    let (mut pre, mut threads) = (pre, threads);
    if kind.is_zst() {
        zst_ops(&mut pre);
        for t in threads.iter_mut() {
            zst_ops(t);
        }
    }
    let nthreads = threads.len();
    let mut sim = SimCfg::simple(nthreads, mix(&[run_seed, 0x5eed]));
    sim.strategy = strategy(&mut rng, false);
    sim.step_cap = 60_000;
    RunCfg {
        prop: "C16".to_string(),
        run_seed,
        kind,
        len,
        start,
        range_end: if kind.is_range() { Some(e) } else { None },
        hint: *rng.pick(&[Hint::Exact, Hint::Inexact, Hint::Unbounded]),
        heap_bytes: 0,
        pre,
        threads,
        terminal: if into_seq {
            Terminal::IntoSeq(3)
        } else {
            Terminal::Drop
        },
        panic: None,
        consume_nth: ((index / 7) % 3) as usize % 2,
        nth_at: 0,
        tail: 0,
        hint_short: 0,
        hint_long: 0,
        finish: ((index / 11) % 3) as u8,
        sim,
    }
}
