#![recursion_limit = "512"]
//! orxsim — deterministic simulation with fault injection for orx-concurrent-iter.
//!
//!   orxsim check  <PROP> <quick|thorough>      parent: runs workers, writes evidence, prints verdict
//!   orxsim worker <PROP> <tier> <seed> <from> <to> <outdir> <wid>
//!   orxsim replay <file>                       exit 1 if the violation reproduces
//!   orxsim one    <PROP> <seed> <index>        run and print a single generated run (debugging)

mod alloc;
mod elems;
mod gen;
mod judge;
mod lin;
mod oracle;
mod parent;
mod replay;
mod rng;
mod sim;
mod stats;
mod work;

#[global_allocator]
static GLOBAL: alloc::Counting = alloc::Counting;

use std::io::Write;
use std::time::Duration;

fn main() {
    let args: Vec<String> = std::env::args().collect();
    if args.len() < 2 {
        eprintln!("usage: orxsim check|worker|replay|one ...");
        std::process::exit(2);
    }
    match args[1].as_str() {
        "check" => {
            let code = parent::check(&args[2], &args[3]);
            std::process::exit(code);
        }
        "worker" => worker(&args[2..]),
        "replay" => {
            let text = match std::fs::read_to_string(&args[2]) {
                Ok(t) => t,
                Err(e) => {
                    eprintln!("harness error: cannot read {}: {e}", args[2]);
                    std::process::exit(2);
                }
            };
            let file: replay::ReplayFile = match serde_json::from_str(&text) {
                Ok(f) => f,
                Err(e) => {
                    eprintln!("harness error: cannot parse {}: {e}", args[2]);
                    std::process::exit(2);
                }
            };
            if file.class == "no-return" {
                // the run is executed in a process of its own against a real-time limit
                let exe = std::env::current_exe().expect("current exe");
                let hung = parent::file_times_out(
                    &exe,
                    &args[2],
                    std::time::Duration::from_secs(60),
                );
                if hung {
                    println!(
                        "REPRODUCED property={} class=no-return hash_match=true message=the run did not finish within 60 s",
                        file.property
                    );
                    std::process::exit(1);
                }
                println!("NOT-REPRODUCED property={} class={}", file.property, file.class);
                std::process::exit(0);
            }
            if file.class == "process-abort" || file.class == "build-divergence" {
                std::process::exit(replay_two_builds(&args[2], &file));
            }
            work::install_panic_hook();
            let (hit, hash) = replay::replay(&file);
            match hit {
                Some(f) => {
                    println!(
                        "REPRODUCED property={} class={} hash_match={} message={}",
                        file.property,
                        f.class,
                        hash == file.event_hash,
                        f.msg
                    );
                    std::process::exit(if hash == file.event_hash { 1 } else { 3 });
                }
                None => {
                    println!("NOT-REPRODUCED property={} class={}", file.property, file.class);
                    std::process::exit(0);
                }
            }
        }
        "transcript" => {
            // executes the configuration of a replay file and prints its hashes (used by C16/C17 replays)
            let text = std::fs::read_to_string(&args[2]).expect("read");
            let file: replay::ReplayFile = serde_json::from_str(&text).expect("parse");
            work::install_panic_hook();
            if std::env::var_os("ORXSIM_HEARTBEAT").is_some() {
                // lets the parent tell "slow" from "reaches no scheduling point any more"
                std::thread::spawn(|| loop {
                    std::thread::sleep(std::time::Duration::from_millis(200));
                    println!("HB {}", sim::progress());
                });
            }
            let rec = work::execute(&file.cfg, 1);
            println!("T {:016x} {:016x}", rec.sim.event_hash, work::transcript_hash(&rec));
        }
        "opts" => {
            // the workload options of every check (documentation aid)
            for p in [
                "C01", "C02", "C03", "C04", "C05", "C06", "C07", "C08", "C09", "C10", "C11", "C12",
                "C13", "C15", "C17", "C18", "C19",
            ] {
                println!("{p} {:?}", gen::opts_for(p));
            }
        }
        "one" => {
            work::install_panic_hook();
            let prop = &args[2];
            let seed: u64 = args[3].parse().expect("seed");
            let index: u64 = args[4].parse().expect("index");
            let mut cfg = gen::generate(prop, seed, index);
            cfg.sim.trace = true;
            println!("{}", serde_json::to_string_pretty(&cfg).expect("json"));
            let (rec, findings, _) = judge::run_and_judge(&cfg, 1);
            for t in &rec.sim.trace {
                println!("{t}");
            }
            for c in &rec.calls {
                println!("{:?}", c);
            }
            println!("verdict {:?} stats {:?}", rec.sim.verdict, rec.sim.stats);
            println!("ledger {:?}", rec.ledger);
            println!("findings {:#?}", findings);
        }
        other => {
            eprintln!("unknown command {other}");
            std::process::exit(2);
        }
    }
}

fn worker(a: &[String]) {
    work::install_panic_hook();
    let prop = a[0].clone();
    let _tier = a[1].clone();
    let seed: u64 = a[2].parse().expect("seed");
    let from: u64 = a[3].parse().expect("from");
    let to: u64 = a[4].parse().expect("to");
    let outdir = a[5].clone();
    let wid: usize = a[6].parse().expect("wid");
    let variant = a.get(7).cloned().unwrap_or_else(|| "shipped".to_string());
    let mut transcripts: Vec<u8> = Vec::new();
    let known = parent::load_known();
    let mut st = stats::Stats::default();
    let mut hashes: Vec<u64> = Vec::new();
    let stdout = std::io::stdout();
    let mut violations = 0u32;
    let mut known_hits: std::collections::BTreeMap<String, u32> = Default::default();
    let mut run_no: u32 = 10;
    for idx in from..to {
        {
            let mut o = stdout.lock();
            let _ = writeln!(o, "R {idx}");
            let _ = o.flush();
        }
        run_no = run_no.wrapping_add(16);
        let cfg = gen::generate(&prop, seed, idx);
        let (rec, findings, facts) = judge::run_and_judge(&cfg, run_no);
        st.record_run(&cfg, &rec, &facts);
        transcripts.extend_from_slice(&idx.to_le_bytes());
        transcripts.extend_from_slice(&rec.sim.event_hash.to_le_bytes());
        transcripts.extend_from_slice(&work::transcript_hash(&rec).to_le_bytes());
        if cfg.threads.len() >= 2 && rec.sim.cross_thread_conflicts > 0 {
            hashes.push(rec.sim.conflict_hash);
        }
        for f in &findings {
            if !replay::matches(f, &prop) {
                st.note_other(f);
            }
        }
        if let Some(f) = findings.iter().find(|f| replay::matches(f, &prop)) {
            // known finding? count it, build a replay only for the first of its signature
            if let Some(k) = parent::match_known(&known, &prop, &cfg, f) {
                let n = known_hits.entry(k.id.clone()).or_insert(0);
                *n += 1;
                if *n == 1 {
                    let file = replay::build(
                        &prop,
                        seed,
                        idx,
                        &cfg,
                        &rec,
                        f,
                        Duration::from_secs(4),
                        run_no,
                    );
                    let path = format!("{outdir}/known-{}-w{wid}.json", k.id);
                    std::fs::write(&path, serde_json::to_string_pretty(&file).expect("json"))
                        .expect("write");
                    let mut o = stdout.lock();
                    let _ = writeln!(o, "K {} {path}", k.id);
                }
                continue;
            }
            violations += 1;
            let file = replay::build(
                &prop,
                seed,
                idx,
                &cfg,
                &rec,
                f,
                Duration::from_secs(20),
                run_no,
            );
            let path = format!("{outdir}/violation-{prop}-{seed}-{idx}.json");
            std::fs::write(&path, serde_json::to_string_pretty(&file).expect("json"))
                .expect("write");
            {
                let mut o = stdout.lock();
                let _ = writeln!(o, "V {path}");
                let _ = o.flush();
            }
            if violations >= 2 {
                break;
            }
        }
    }
    st.known_hits = known_hits;
    std::fs::write(format!("{outdir}/transcripts-{variant}-{wid}.bin"), &transcripts)
        .expect("write transcripts");
    let spath = format!("{outdir}/stats-{wid}.json");
    std::fs::write(&spath, serde_json::to_string(&st).expect("json")).expect("write stats");
    let hpath = format!("{outdir}/hashes-{wid}.bin");
    let mut bytes = Vec::with_capacity(hashes.len() * 8);
    for h in hashes {
        bytes.extend_from_slice(&h.to_le_bytes());
    }
    std::fs::write(&hpath, bytes).expect("write hashes");
    let mut o = stdout.lock();
    let _ = writeln!(o, "D {wid}");
}

/// Replays a process-abort / build-divergence violation: the run is executed by the shipped build
/// (this executable) and by the checked build, each in a process of its own.
fn replay_two_builds(path: &str, file: &replay::ReplayFile) -> i32 {
    let exe = std::env::current_exe().expect("current exe");
    let checked = std::env::var("ORXSIM_CHECKED_BIN").unwrap_or_default();
    let mut outs: Vec<Option<String>> = Vec::new();
    let mut bins = vec![exe];
    if std::path::Path::new(&checked).exists() {
        bins.push(std::path::PathBuf::from(checked));
    }
    for b in &bins {
        let o = std::process::Command::new(b).arg("transcript").arg(path).output();
        match o {
            Ok(o) if o.status.success() => {
                let t = String::from_utf8_lossy(&o.stdout);
                outs.push(t.lines().find(|l| l.starts_with("T ")).map(|l| l.to_string()));
            }
            _ => outs.push(None),
        }
    }
    let aborted = outs.iter().any(|o| o.is_none());
    let differ = outs.len() == 2 && outs[0] != outs[1];
    if file.class == "process-abort" && aborted {
        println!("REPRODUCED property={} class=process-abort hash_match=true message=a build of the simulator was terminated while executing this run: {:?}", file.property, outs);
        return 1;
    }
    if file.class == "build-divergence" && (differ || aborted) {
        println!("REPRODUCED property={} class=build-divergence hash_match=true message=transcripts of the shipped and the checked build: {:?}", file.property, outs);
        return 1;
    }
    println!("NOT-REPRODUCED property={} class={}", file.property, file.class);
    0
}
