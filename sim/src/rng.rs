//! Own PRNG (SplitMix64 seeding a xoshiro256**). One integer decides everything.

#[derive(Clone, Debug)]
pub struct Rng {
    s: [u64; 4],
}

pub fn splitmix(x: &mut u64) -> u64 {
    *x = x.wrapping_add(0x9E37_79B9_7F4A_7C15);
    let mut z = *x;
    z = (z ^ (z >> 30)).wrapping_mul(0xBF58_476D_1CE4_E5B9);
    z = (z ^ (z >> 27)).wrapping_mul(0x94D0_49BB_1331_11EB);
    z ^ (z >> 31)
}

/// Stateless mix of several integers into one (used to derive per-run / per-stream seeds).
pub fn mix(parts: &[u64]) -> u64 {
    let mut h: u64 = 0x243F_6A88_85A3_08D3;
    for &p in parts {
        let mut x = h ^ p;
        h = splitmix(&mut x);
    }
    h
}

impl Rng {
    pub fn new(seed: u64) -> Self {
        let mut x = seed;
        let s = [
            splitmix(&mut x),
            splitmix(&mut x),
            splitmix(&mut x),
            splitmix(&mut x),
        ];
        Rng { s }
    }

    pub fn next_u64(&mut self) -> u64 {
        let result = self.s[1].wrapping_mul(5).rotate_left(7).wrapping_mul(9);
        let t = self.s[1] << 17;
        self.s[2] ^= self.s[0];
        self.s[3] ^= self.s[1];
        self.s[1] ^= self.s[2];
        self.s[0] ^= self.s[3];
        self.s[2] ^= t;
        self.s[3] = self.s[3].rotate_left(45);
        result
    }

    /// uniform in 0..n (n > 0)
    pub fn below(&mut self, n: usize) -> usize {
        debug_assert!(n > 0);
        (self.next_u64() % n as u64) as usize
    }

    /// uniform in lo..=hi
    pub fn range(&mut self, lo: usize, hi: usize) -> usize {
        lo + self.below(hi - lo + 1)
    }

    /// true with probability num/den
    pub fn chance(&mut self, num: u64, den: u64) -> bool {
        self.next_u64() % den < num
    }

    pub fn pick<'a, T>(&mut self, xs: &'a [T]) -> &'a T {
        &xs[self.below(xs.len())]
    }

    /// index drawn with the given weights
    pub fn weighted(&mut self, weights: &[u32]) -> usize {
        let total: u64 = weights.iter().map(|&w| w as u64).sum();
        debug_assert!(total > 0);
        let mut r = self.next_u64() % total;
        for (i, &w) in weights.iter().enumerate() {
            if r < w as u64 {
                return i;
            }
            r -= w as u64;
        }
        weights.len() - 1
    }
}
