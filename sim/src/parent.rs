//! Parent process of a check: distributes run indices over worker processes, survives worker
//! aborts, verifies replay files in fresh processes, writes the evidence file, prints the verdict.

use crate::oracle::Finding;
use crate::replay::ReplayFile;
use crate::stats::Stats;
use crate::work::RunCfg;
use serde::{Deserialize, Serialize};
use std::collections::BTreeMap;
use std::io::{BufRead, BufReader};
use std::process::{Command, Stdio};
use std::sync::mpsc;
use std::time::Instant;

#[derive(Clone, Debug, Serialize, Deserialize)]
pub struct Known {
    pub id: String,
    /// "known" suppresses (prints KNOWN-FINDING); "fixed" suppresses nothing
    pub status: String,
    pub property: String,
    #[serde(default)]
    pub kinds: Vec<String>,
    pub class: String,
    #[serde(default)]
    pub message_contains: Vec<String>,
    /// the finding applies only to sources of at least this length
    #[serde(default)]
    pub min_len: u64,
    /// the finding applies only to wrapped iterators with one of these size-hint flavours
    #[serde(default)]
    pub hints: Vec<String>,
    pub what: String,
    #[serde(default)]
    pub commit: String,
}

#[derive(Clone, Debug, Default, Serialize, Deserialize)]
pub struct KnownFile {
    pub findings: Vec<Known>,
}

pub fn verif_dir() -> String {
    std::env::var("VERIF_DIR").unwrap_or_else(|_| "/verif".to_string())
}

pub fn load_known() -> KnownFile {
    let path = format!("{}/known_findings.json", verif_dir());
    match std::fs::read_to_string(&path) {
        Ok(t) => serde_json::from_str(&t).unwrap_or_else(|e| {
            eprintln!("harness error: cannot parse {path}: {e}");
            std::process::exit(2);
        }),
        Err(_) => KnownFile::default(),
    }
}

pub fn match_known<'a>(
    k: &'a KnownFile,
    prop: &str,
    cfg: &RunCfg,
    f: &Finding,
) -> Option<&'a Known> {
    let kind = format!("{:?}", cfg.kind);
    k.findings.iter().find(|e| {
        e.status == "known"
            && e.property == prop
            && e.class == f.class
            && (e.kinds.is_empty() || e.kinds.contains(&kind))
            && e.message_contains.iter().all(|m| f.msg.contains(m))
            && cfg.len as u64 >= e.min_len
            && (e.hints.is_empty() || e.hints.contains(&format!("{:?}", cfg.hint)))
    })
}

/// Executes `cfg` in a child process of `bin` (subcommand `transcript`); None = the child died.
fn child_transcript(bin: &std::path::Path, cfg: &RunCfg, scratch: &str, prop: &str) -> Option<String> {
    let file = ReplayFile {
        property: prop.to_string(),
        base_seed: 0,
        run_index: 0,
        class: "trial".into(),
        message: String::new(),
        event_hash: 0,
        minimised: false,
        original_ops: 0,
        original_deviations: 0,
        cfg: cfg.clone(),
        trace: vec![],
    };
    let path = format!("{scratch}/trial-{}.json", std::process::id());
    std::fs::write(&path, serde_json::to_string(&file).ok()?).ok()?;
    let o = Command::new(bin).arg("transcript").arg(&path).output().ok()?;
    if !o.status.success() {
        return None;
    }
    String::from_utf8_lossy(&o.stdout)
        .lines()
        .find(|l| l.starts_with("T "))
        .map(|l| l.to_string())
}

/// Runs the configuration in a child process of its own and reports whether it failed to finish
/// within `limit` of real time (it is killed then). A run takes milliseconds; the limits used are
/// three to four orders of magnitude above that.
pub fn child_times_out(
    bin: &std::path::Path,
    cfg: &RunCfg,
    scratch: &str,
    prop: &str,
    limit: std::time::Duration,
) -> bool {
    let file = ReplayFile {
        property: prop.to_string(),
        base_seed: 0,
        run_index: 0,
        class: "trial".into(),
        message: String::new(),
        event_hash: 0,
        minimised: false,
        original_ops: 0,
        original_deviations: 0,
        cfg: cfg.clone(),
        trace: vec![],
    };
    let path = format!("{scratch}/trial-hang-{}.json", std::process::id());
    if std::fs::write(&path, serde_json::to_string(&file).unwrap_or_default()).is_err() {
        return false;
    }
    file_times_out(bin, &path, limit)
}

/// True iff the child neither finishes nor reaches a new scheduling point for `limit`: the
/// child prints its global event sequence number five times a second, and the clock is reset
/// whenever that number has changed, so a run that is merely slow (a loaded machine) is not
/// mistaken for one that never returns.
pub fn file_times_out(bin: &std::path::Path, path: &str, limit: std::time::Duration) -> bool {
    let Ok(mut child) = Command::new(bin)
        .arg("transcript")
        .arg(path)
        .env("ORXSIM_HEARTBEAT", "1")
        .stdout(Stdio::piped())
        .stderr(Stdio::null())
        .spawn()
    else {
        return false;
    };
    let (tx, rx) = mpsc::channel::<u64>();
    if let Some(out) = child.stdout.take() {
        std::thread::spawn(move || {
            for line in BufReader::new(out).lines().map_while(Result::ok) {
                if let Some(v) = line.strip_prefix("HB ").and_then(|v| v.parse::<u64>().ok()) {
                    if tx.send(v).is_err() {
                        break;
                    }
                }
            }
        });
    }
    let mut last_change = Instant::now();
    let mut last_seq = u64::MAX;
    loop {
        match child.try_wait() {
            Ok(Some(_)) => return false,
            Ok(None) => {}
            Err(_) => return false,
        }
        while let Ok(v) = rx.try_recv() {
            if v != last_seq {
                last_seq = v;
                last_change = Instant::now();
            }
        }
        if last_change.elapsed() > limit {
            let _ = child.kill();
            let _ = child.wait();
            return true;
        }
        std::thread::sleep(std::time::Duration::from_millis(10));
    }
}

/// Runs the configuration in a child process; None if the child survives, otherwise whether it
/// died after the terminal action (drop / into_seq_iter) had begun.
fn child_abort_in_terminal(
    bin: &std::path::Path,
    cfg: &RunCfg,
    scratch: &str,
    prop: &str,
) -> Option<bool> {
    let file = ReplayFile {
        property: prop.to_string(),
        base_seed: 0,
        run_index: 0,
        class: "trial".into(),
        message: String::new(),
        event_hash: 0,
        minimised: false,
        original_ops: 0,
        original_deviations: 0,
        cfg: cfg.clone(),
        trace: vec![],
    };
    let path = format!("{scratch}/trial-{}.json", std::process::id());
    std::fs::write(&path, serde_json::to_string(&file).ok()?).ok()?;
    let o = Command::new(bin)
        .arg("transcript")
        .arg(&path)
        .env("ORXSIM_PHASE_MARK", "1")
        .output()
        .ok()?;
    if o.status.success() {
        return None;
    }
    Some(
        String::from_utf8_lossy(&o.stdout)
            .lines()
            .any(|l| l == "PHASE terminal"),
    )
}

/// (runs, workers) per property and tier.
pub fn budget(prop: &str, tier: &str) -> (u64, usize) {
    let quick: u64 = match prop {
        // the whole grid: every point sequentially and under C16_SCHEDULES_PER_POINT schedules
        "C16" => crate::gen::c16_grid_size() * (crate::gen::C16_SCHEDULES_PER_POINT + 1),
        "C04" => 90_000,
        "C05" => 80_000,
        // the widest alphabet of source kinds and operations; the torn-read defect S10 needs
        // about 10^5 runs of it
        "C11" => 200_000,
        _ => 100_000,
    };
    let env_runs = std::env::var("VERIF_RUNS").ok().and_then(|v| v.parse().ok());
    let runs = match (env_runs, tier) {
        (Some(r), _) => r,
        (None, "thorough") if prop == "C16" => quick * 8,
        (None, "thorough") => quick * 15,
        _ => quick,
    };
    let workers = std::env::var("VERIF_WORKERS")
        .ok()
        .and_then(|v| v.parse().ok())
        .unwrap_or(14usize);
    (runs, workers)
}

enum Msg {
    Started(usize, u32),
    Run(usize, u64),
    Violation(usize, String),
    KnownHit(usize, String, String),
    Done(usize),
    Exit(usize, Option<i32>, bool),
}

#[derive(Clone, Copy)]
struct Slice {
    from: u64,
    to: u64,
    /// 0 = the shipped build (this executable), 1 = the checked build (C16/C17)
    variant: usize,
}

const VARIANTS: [&str; 2] = ["shipped", "checked"];

pub fn check(prop: &str, tier: &str) -> i32 {
    let t0 = Instant::now();
    let seed: u64 = std::env::var("VERIF_SEED")
        .ok()
        .and_then(|v| v.parse().ok())
        .unwrap_or(1);
    let (runs, nworkers) = budget(prop, tier);
    let vdir = verif_dir();
    let outdir = format!("{vdir}/replays/tmp/{prop}-{tier}-{}", std::process::id());
    let _ = std::fs::remove_dir_all(&outdir);
    std::fs::create_dir_all(&outdir).expect("create outdir");
    let exe = std::env::current_exe().expect("current exe");
    let two_builds = matches!(prop, "C16" | "C17");
    let checked_exe = std::env::var("ORXSIM_CHECKED_BIN").unwrap_or_default();
    if two_builds && !std::path::Path::new(&checked_exe).exists() {
        eprintln!("harness error: checked build not found (ORXSIM_CHECKED_BIN={checked_exe})");
        return 2;
    }
    let exes = [exe.clone(), std::path::PathBuf::from(&checked_exe)];

    // slices: contiguous, independent of anything but (runs, nworkers); the run -> config mapping
    // does not depend on the slicing
    let per = runs.div_ceil(nworkers as u64).max(1);
    let mut queue: Vec<Slice> = Vec::new();
    // VERIF_FROM: debugging aid, shifts the window of run indices
    let offset: u64 = std::env::var("VERIF_FROM")
        .ok()
        .and_then(|v| v.parse().ok())
        .unwrap_or(0);
    let runs = runs + offset;
    let mut a = offset;
    while a < runs {
        let b = (a + per).min(runs);
        queue.push(Slice {
            from: a,
            to: b,
            variant: 0,
        });
        if two_builds {
            queue.push(Slice {
                from: a,
                to: b,
                variant: 1,
            });
        }
        a = b;
    }
    queue.reverse();

    let (tx, rx) = mpsc::channel::<Msg>();
    let mut next_wid = 0usize;
    let mut live: BTreeMap<usize, (Slice, u64, bool)> = BTreeMap::new(); // wid -> (slice, last idx, done)
    let mut violations: Vec<String> = Vec::new();
    let mut known_files: BTreeMap<String, String> = BTreeMap::new();
    let mut aborted_runs: Vec<(u64, String)> = Vec::new();
    let mut confirm: BTreeMap<(u64, usize), bool> = BTreeMap::new(); // (idx, variant) under confirmation
    let mut confirmed_aborts: Vec<(u64, usize)> = Vec::new();
    let mut transcript_files: Vec<(usize, String)> = Vec::new();
    let mut stats_files: Vec<String> = Vec::new();
    let mut hash_files: Vec<String> = Vec::new();

    let spawn = |wid: usize, s: &Slice, tx: mpsc::Sender<Msg>| {
        let mut child = Command::new(&exes[s.variant])
            .arg("worker")
            .arg(prop)
            .arg(tier)
            .arg(seed.to_string())
            .arg(s.from.to_string())
            .arg(s.to.to_string())
            .arg(&outdir)
            .arg(wid.to_string())
            .arg(VARIANTS[s.variant])
            .stdout(Stdio::piped())
            .stderr(Stdio::null())
            .spawn()
            .expect("spawn worker");
        let out = child.stdout.take().expect("stdout");
        let _ = tx.send(Msg::Started(wid, child.id()));
        std::thread::spawn(move || {
            let rd = BufReader::new(out);
            for line in rd.lines() {
                let Ok(line) = line else { break };
                let mut it = line.splitn(3, ' ');
                match (it.next(), it.next(), it.next()) {
                    (Some("R"), Some(i), _) => {
                        if let Ok(i) = i.parse() {
                            let _ = tx.send(Msg::Run(wid, i));
                        }
                    }
                    (Some("V"), Some(p), _) => {
                        let _ = tx.send(Msg::Violation(wid, p.to_string()));
                    }
                    (Some("K"), Some(id), Some(p)) => {
                        let _ = tx.send(Msg::KnownHit(wid, id.to_string(), p.to_string()));
                    }
                    (Some("D"), _, _) => {
                        let _ = tx.send(Msg::Done(wid));
                    }
                    _ => {}
                }
            }
            let st = child.wait().ok();
            let code = st.and_then(|s| s.code());
            let ok = st.map(|s| s.success()).unwrap_or(false);
            let _ = tx.send(Msg::Exit(wid, code, ok));
        });
    };

    // watchdog: a worker that reports no progress for this long is blocked in something the
    // simulator does not schedule (a real mutex, an endless loop without atomic operations, ...):
    // that is a limitation of the harness (exit 2), never a VIOLATION
    let stall_limit = std::time::Duration::from_secs(
        std::env::var("VERIF_STALL_S")
            .ok()
            .and_then(|v| v.parse().ok())
            .unwrap_or(240),
    );
    let mut pids: BTreeMap<usize, u32> = BTreeMap::new();
    let mut progress: BTreeMap<usize, Instant> = BTreeMap::new();
    let mut stalled: std::collections::BTreeSet<usize> = Default::default();
    let mut stall_errors: Vec<String> = Vec::new();
    let mut stalled_runs: Vec<(u64, usize)> = Vec::new();
    let mut running = 0usize;
    loop {
        while running < nworkers {
            let Some(s) = queue.pop() else { break };
            let wid = next_wid;
            next_wid += 1;
            spawn(wid, &s, tx.clone());
            let from = s.from;
            live.insert(wid, (s, from, false));
            running += 1;
        }
        if running == 0 {
            break;
        }
        let msg = match rx.recv_timeout(std::time::Duration::from_secs(5)) {
            Ok(m) => m,
            Err(_) => {
                for (w, t) in progress.iter() {
                    if live.contains_key(w) && !stalled.contains(w) && t.elapsed() > stall_limit {
                        stalled.insert(*w);
                        let at = live.get(w).map(|e| e.1).unwrap_or(0);
                        if let Some(e) = live.get(w) {
                            stalled_runs.push((e.1, e.0.variant));
                        }
                        stall_errors.push(format!(
                            "worker {w} made no progress for {} s while executing run {at}: a thread is blocked in something the simulator does not schedule; worker killed, its slice abandoned",
                            stall_limit.as_secs()
                        ));
                        if let Some(pid) = pids.get(w) {
                            let _ = Command::new("kill").arg("-9").arg(pid.to_string()).status();
                        }
                    }
                }
                continue;
            }
        };
        match msg {
            Msg::Started(w, pid) => {
                pids.insert(w, pid);
                progress.insert(w, Instant::now());
            }
            Msg::Run(w, i) => {
                progress.insert(w, Instant::now());
                if let Some(e) = live.get_mut(&w) {
                    e.1 = i;
                }
            }
            Msg::Violation(w, p) => {
                progress.insert(w, Instant::now());
                violations.push(p)
            }
            Msg::KnownHit(w, id, p) => {
                progress.insert(w, Instant::now());
                known_files.entry(id).or_insert(p);
            }
            Msg::Done(w) => {
                if let Some(e) = live.get_mut(&w) {
                    e.2 = true;
                }
                let variant = live.get(&w).map(|e| e.0.variant).unwrap_or(0);
                if variant == 0 {
                    stats_files.push(format!("{outdir}/stats-{w}.json"));
                    hash_files.push(format!("{outdir}/hashes-{w}.bin"));
                }
                transcript_files.push((
                    variant,
                    format!("{outdir}/transcripts-{}-{w}.bin", VARIANTS[variant]),
                ));
            }
            Msg::Exit(w, code, ok) => {
                running -= 1;
                let (slice, last, done) = live.remove(&w).expect("live worker");
                if done && ok {
                    continue;
                }
                if stalled.contains(&w) {
                    continue;
                }
                // the worker died while executing run `last`
                let how = match code {
                    Some(c) => format!("exit code {c}"),
                    None => "killed by a signal".to_string(),
                };
                let is_confirmation = slice.to == slice.from + 1
                    && confirm.remove(&(slice.from, slice.variant)).is_some();
                if is_confirmation {
                    confirmed_aborts.push((slice.from, slice.variant));
                    aborted_runs.push((
                        slice.from,
                        format!("{} build, confirmed alone: {how}", VARIANTS[slice.variant]),
                    ));
                    continue;
                }
                aborted_runs.push((last, format!("{} build: {how}", VARIANTS[slice.variant])));
                if aborted_runs.len() > 40 {
                    // enough evidence; do not keep respawning
                    continue;
                }
                // confirm alone, and continue with the rest of the slice
                confirm.insert((last, slice.variant), true);
                queue.push(Slice {
                    from: last,
                    to: last + 1,
                    variant: slice.variant,
                });
                if last + 1 < slice.to {
                    queue.insert(
                        0,
                        Slice {
                            from: last + 1,
                            to: slice.to,
                            variant: slice.variant,
                        },
                    );
                }
            }
        }
    }
    drop(tx);

    // merge statistics
    let mut st = Stats::default();
    for p in &stats_files {
        if let Ok(t) = std::fs::read_to_string(p) {
            if let Ok(s) = serde_json::from_str::<Stats>(&t) {
                st.merge(&s);
            }
        }
    }
    let mut hashes: Vec<u64> = Vec::new();
    for p in &hash_files {
        if let Ok(b) = std::fs::read(p) {
            for c in b.chunks_exact(8) {
                hashes.push(u64::from_le_bytes(c.try_into().expect("8 bytes")));
            }
        }
    }
    hashes.sort_unstable();
    hashes.dedup();
    let distinct = hashes.len() as u64;

    // worker aborts: in scope of the property?
    let abort_in_scope = matches!(prop, "C08" | "C15" | "C16" | "C17" | "C18");
    let mut exit_code = 0;
    let mut lines: Vec<String> = Vec::new();
    let mut harness_errors: Vec<String> = Vec::new();
    let final_dir = format!("{vdir}/replays");
    let mut abort_violations = 0usize;
    confirmed_aborts.sort();
    confirmed_aborts.dedup();
    for (idx, variant) in confirmed_aborts.iter().take(5) {
        let cfg0 = crate::gen::generate(prop, seed, *idx);
        let bin = exes[*variant].clone();
        // C10: a process that dies inside into_seq_iter (or while its result is consumed and
        // dropped) did not return the remainder; a death before that is not C10's business
        let c10_terminal = prop == "C10"
            && matches!(cfg0.terminal, crate::work::Terminal::IntoSeq(_))
            && child_abort_in_terminal(&bin, &cfg0, &outdir, prop) == Some(true);
        if abort_in_scope || c10_terminal {
            let original_ops = cfg0.pre.len() + cfg0.threads.iter().map(|t| t.len()).sum::<usize>();
            let (cfg, _) = crate::replay::minimise_external(
                cfg0,
                std::time::Duration::from_secs(25),
                |c| {
                    if c10_terminal {
                        matches!(c.terminal, crate::work::Terminal::IntoSeq(_))
                            && child_abort_in_terminal(&bin, c, &outdir, prop) == Some(true)
                    } else {
                        child_transcript(&bin, c, &outdir, prop).is_none()
                    }
                },
            );
            let file = ReplayFile {
                property: prop.to_string(),
                base_seed: seed,
                run_index: *idx,
                class: "process-abort".to_string(),
                message: format!(
                    "the {} build of the simulator executing this run was terminated (abort / segmentation fault){}",
                    VARIANTS[*variant],
                    if c10_terminal {
                        " after into_seq_iter had been called: the remainder was not returned"
                    } else {
                        ""
                    }
                ),
                event_hash: *variant as u64,
                minimised: true,
                original_ops,
                original_deviations: 0,
                cfg,
                trace: vec![],
            };
            let path = format!("{final_dir}/{prop}-{seed}-{idx}-abort.json");
            std::fs::write(&path, serde_json::to_string_pretty(&file).expect("json"))
                .expect("write replay");
            lines.push(format!(
                "violation class=process-abort kind={:?} len={} : {}",
                file.cfg.kind, file.cfg.len, file.message
            ));
            lines.push(format!("VIOLATION property={prop} replay={path}"));
            abort_violations += 1;
            exit_code = 1;
        }
    }
    // C09 ("every call returns"): a run that does not finish without ever reaching a scheduling
    // point is outside the simulator's own hang verdict; it is confirmed alone in a fresh
    // process against a real-time limit far above what a run takes
    if prop == "C09" {
        stalled_runs.sort();
        stalled_runs.dedup();
        for (idx, variant) in stalled_runs.iter().take(2) {
            let cfg0 = crate::gen::generate(prop, seed, *idx);
            let bin = exes[*variant].clone();
            if !child_times_out(&bin, &cfg0, &outdir, prop, std::time::Duration::from_secs(60)) {
                continue;
            }
            let original_ops = cfg0.pre.len() + cfg0.threads.iter().map(|t| t.len()).sum::<usize>();
            let (cfg, _) = crate::replay::minimise_external(
                cfg0,
                std::time::Duration::from_secs(90),
                |c| child_times_out(&bin, c, &outdir, prop, std::time::Duration::from_secs(5)),
            );
            let file = ReplayFile {
                property: prop.to_string(),
                base_seed: seed,
                run_index: *idx,
                class: "no-return".to_string(),
                message: "a call did not return within 60 s of real time and reached no scheduling point (no atomic operation, no access to the wrapped iterator) in that time: an endless loop or a blocking primitive outside the crate's atomics; a run takes milliseconds".to_string(),
                event_hash: *variant as u64,
                minimised: true,
                original_ops,
                original_deviations: 0,
                cfg,
                trace: vec![],
            };
            let path = format!("{final_dir}/{prop}-{seed}-{idx}-noreturn.json");
            std::fs::write(&path, serde_json::to_string_pretty(&file).expect("json"))
                .expect("write replay");
            lines.push(format!(
                "violation class=no-return kind={:?} len={} threads={} : {}",
                file.cfg.kind,
                file.cfg.len,
                file.cfg.threads.len(),
                file.message
            ));
            lines.push(format!("VIOLATION property={prop} replay={path}"));
            abort_violations += 1;
            exit_code = 1;
        }
    }
    // VERIF_TRANSCRIPT_OUT: dump (run index, event-log hash, transcript hash) of the shipped build,
    // sorted by index (used by tools/determinism.sh)
    if let Ok(path) = std::env::var("VERIF_TRANSCRIPT_OUT") {
        let mut rows: Vec<(u64, u64, u64)> = Vec::new();
        for (v, p) in &transcript_files {
            if *v != 0 {
                continue;
            }
            if let Ok(b) = std::fs::read(p) {
                for c in b.chunks_exact(24) {
                    rows.push((
                        u64::from_le_bytes(c[0..8].try_into().expect("8")),
                        u64::from_le_bytes(c[8..16].try_into().expect("8")),
                        u64::from_le_bytes(c[16..24].try_into().expect("8")),
                    ));
                }
            }
        }
        rows.sort();
        let text: String = rows
            .iter()
            .map(|r| format!("{} {:016x} {:016x}\n", r.0, r.1, r.2))
            .collect();
        let _ = std::fs::write(path, text);
    }
    // two builds: compare transcripts run by run
    let mut compared = 0u64;
    let mut divergences: Vec<u64> = Vec::new();
    if two_builds {
        let mut maps: [BTreeMap<u64, (u64, u64)>; 2] = [BTreeMap::new(), BTreeMap::new()];
        for (v, p) in &transcript_files {
            if let Ok(b) = std::fs::read(p) {
                for c in b.chunks_exact(24) {
                    let idx = u64::from_le_bytes(c[0..8].try_into().expect("8"));
                    let eh = u64::from_le_bytes(c[8..16].try_into().expect("8"));
                    let th = u64::from_le_bytes(c[16..24].try_into().expect("8"));
                    maps[*v].insert(idx, (eh, th));
                }
            }
        }
        for (idx, a) in &maps[0] {
            if let Some(b) = maps[1].get(idx) {
                compared += 1;
                if a != b {
                    divergences.push(*idx);
                }
            }
        }
        for idx in divergences.iter().take(5) {
            let cfg0 = crate::gen::generate(prop, seed, *idx);
            let original_ops = cfg0.pre.len() + cfg0.threads.iter().map(|t| t.len()).sum::<usize>();
            let (b0, b1) = (exes[0].clone(), exes[1].clone());
            let (cfg, _) = crate::replay::minimise_external(
                cfg0,
                std::time::Duration::from_secs(25),
                |c| child_transcript(&b0, c, &outdir, prop) != child_transcript(&b1, c, &outdir, prop),
            );
            let file = ReplayFile {
                property: prop.to_string(),
                base_seed: seed,
                run_index: *idx,
                class: "build-divergence".to_string(),
                message: "the build with debug assertions and overflow checks and the build without them produced different transcripts for this run".to_string(),
                event_hash: 0,
                minimised: true,
                original_ops,
                original_deviations: 0,
                cfg,
                trace: vec![],
            };
            let path = format!("{final_dir}/{prop}-{seed}-{idx}-divergence.json");
            std::fs::write(&path, serde_json::to_string_pretty(&file).expect("json"))
                .expect("write replay");
            lines.push(format!(
                "violation class=build-divergence kind={:?} len={} : {}",
                file.cfg.kind, file.cfg.len, file.message
            ));
            lines.push(format!("VIOLATION property={prop} replay={path}"));
            exit_code = 1;
        }
    }

    // verify every replay file in a fresh process before believing it
    let mut reported = 0;
    violations.sort_by_key(|v| {
        // deterministic order: by run index (last number in the file name)
        v.trim_end_matches(".json")
            .rsplit('-')
            .next()
            .and_then(|x| x.parse::<u64>().ok())
            .unwrap_or(u64::MAX)
    });
    let total_violations = violations.len();
    violations.truncate(5);
    for v in &violations {
        let name = std::path::Path::new(v)
            .file_name()
            .map(|s| s.to_string_lossy().to_string())
            .unwrap_or_default();
        let dest = format!("{final_dir}/{}", name.replace("violation-", ""));
        let _ = std::fs::copy(v, &dest);
        let out = Command::new(&exe).arg("replay").arg(&dest).output();
        match out {
            Ok(o) if o.status.code() == Some(1) => {
                reported += 1;
                if reported <= 5 {
                    if let Ok(t) = std::fs::read_to_string(&dest) {
                        if let Ok(f) = serde_json::from_str::<ReplayFile>(&t) {
                            lines.push(format!(
                                "violation class={} kind={:?} len={} threads={} : {}",
                                f.class,
                                f.cfg.kind,
                                f.cfg.len,
                                f.cfg.threads.len(),
                                f.message
                            ));
                        }
                    }
                    lines.push(format!("VIOLATION property={prop} replay={dest}"));
                }
                exit_code = 1;
            }
            Ok(o) => {
                harness_errors.push(format!(
                    "replay of {dest} did not reproduce exactly (exit {:?}): {}",
                    o.status.code(),
                    String::from_utf8_lossy(&o.stdout).trim()
                ));
            }
            Err(e) => harness_errors.push(format!("cannot run replay of {dest}: {e}")),
        }
    }

    // known findings
    let known = load_known();
    for (id, path) in &known_files {
        if let Some(k) = known.findings.iter().find(|k| &k.id == id) {
            let dest = format!("{final_dir}/known-{id}.json");
            let _ = std::fs::copy(path, &dest);
            lines.push(format!(
                "KNOWN-FINDING: property={prop} {} (confirmed {} times in this run; replay={dest})",
                k.what,
                st.known_hits.get(id).cloned().unwrap_or(0)
            ));
        }
    }

    harness_errors.extend(stall_errors.iter().cloned());
    let wall = t0.elapsed().as_secs_f64();
    write_evidence(
        prop,
        tier,
        seed,
        runs,
        nworkers,
        &st,
        distinct,
        wall,
        total_violations + abort_violations + divergences.len(),
        &aborted_runs,
        &harness_errors,
        &known_files,
        compared,
    );
    let _ = std::fs::remove_dir_all(&outdir);

    println!(
        "check {prop} {tier}: seed {seed}, {} simulated runs in {:.1}s ({:.0} runs/s), {} scheduling steps, {} distinct conflict orders, {} worker aborts",
        st.runs,
        wall,
        st.runs as f64 / wall.max(0.001),
        st.steps,
        distinct,
        aborted_runs.len()
    );
    for l in &lines {
        println!("{l}");
    }
    if !harness_errors.is_empty() && exit_code == 0 {
        for e in &harness_errors {
            eprintln!("harness error: {e}");
        }
        return 2;
    }
    if st.runs == 0 && exit_code == 0 {
        eprintln!("harness error: no run completed");
        return 2;
    }
    if exit_code == 0 && std::env::var("ORXSIM_DEFER_OK").is_err() {
        println!("OK property={prop} held on everything explored");
    }
    exit_code
}

fn level_of(prop: &str) -> &'static str {
    match prop {
        "C16" | "C18" => "fault_enumeration",
        _ => "exploration",
    }
}

#[allow(clippy::too_many_arguments)]
fn write_evidence(
    prop: &str,
    tier: &str,
    seed: u64,
    planned: u64,
    workers: usize,
    st: &Stats,
    distinct: u64,
    wall: f64,
    violations: usize,
    aborted: &[(u64, String)],
    harness_errors: &[String],
    known: &BTreeMap<String, String>,
    compared: u64,
) {
    let runs_per_hour = if wall > 0.0 {
        (st.runs as f64 / wall * 3600.0) as u64
    } else {
        0
    };
    let ev = serde_json::json!({
        "property_id": prop,
        "tier": tier,
        "seed": seed,
        "level": level_of(prop),
        "coverage": {
            "evaluations": st.runs,
            "distinct_nontrivial": distinct,
            "rule": "One evaluation = one simulated run: a workload (source kind, length, per-thread operation lists, terminal action, fault plan) and a schedule, both drawn from mix(VERIF_SEED, run index). A run is non-trivial if it has >= 2 virtual threads and at least one cross-thread conflict (an atomic location or the wrapped iterator accessed by a thread after a different thread wrote it). Two runs are the same case if they have the same conflict-order class: the hash, per atomic location and per probed object, of the sequence of (thread, access kind) of conflicting accesses. distinct_nontrivial = number of distinct conflict-order classes among non-trivial runs (set union over all workers).",
            "samples": st.samples,
            "planned_runs": planned,
            "runs_compared_between_shipped_and_checked_build": compared,
            "workers": workers,
            "runs_per_second": st.runs as f64 / wall.max(0.001),
            "simulated_runs_per_hour": runs_per_hour,
            "simulated_time_scheduling_steps": st.steps,
            "scheduling_decisions": st.decisions,
            "atomic_operations_executed": st.atomic_ops,
            "api_calls_recorded": st.calls,
            "elements_delivered": st.deliveries,
            "multi_thread_runs": st.multi_thread_runs,
            "runs_with_cross_thread_conflict": st.runs_with_cross_thread_conflict,
            "max_preemptions_in_one_run": st.max_preemptions,
            "steps_per_run_histogram": st.steps_hist,
            "runs_by_source_kind": st.by_kind,
            "calls_by_method": st.by_call_kind,
            "runs_by_strategy": st.by_strategy,
            "runs_by_thread_count": st.by_threads,
            "runs_by_length": st.by_len,
            "runs_by_terminal_action": st.by_terminal,
            "faults_fired": st.faults,
            "rare_condition_probes": st.probes,
            "crash_points_fired_site_k_len": st.crash_points_fired,
            "crash_points_configured_but_not_reached": st.crash_points_not_reached,
            "c16_grid": if prop == "C16" {
                serde_json::json!({
                    "grid_points": crate::gen::c16_grid_size(),
                    "runs_per_point_and_pass": crate::gen::C16_SCHEDULES_PER_POINT + 1,
                    "passes_completed": st.runs / (crate::gen::c16_grid_size() * (crate::gen::C16_SCHEDULES_PER_POINT + 1)).max(1),
                    "input_grid_enumerated_completely": st.runs >= crate::gen::c16_grid_size() * (crate::gen::C16_SCHEDULES_PER_POINT + 1),
                    "schedules": "sampled"
                })
            } else {
                serde_json::Value::Null
            },
            "histories_checked_for_linearizability": st.lin_checked,
            "linearizability_states_visited": st.lin_states,
            "runs_torn_down_after_hang_verdict": st.aborted_runs,
            "worker_process_aborts": aborted.iter().map(|(i, h)| format!("run {i}: {h}")).collect::<Vec<_>>(),
            "other_property_observations": st.other_property_observations,
            "other_property_examples": st.other_examples,
            "known_findings_confirmed": known.keys().collect::<Vec<_>>(),
            "harness_errors": harness_errors,
            "real_code": ["all of /repo/src (working tree) through its public API", "std (Vec, IntoIter, ptr, atomics with the orderings the crate wrote)", "OS threads, real panics and unwinding"],
            "stubs": ["scheduling of atomic operations (baton; the operation itself is the real std atomic)", "wrapped sequential iterator (probe)", "element types (identity, clone, destructor ledger)", "user closures", "global allocator wrapper (forwards to System)"],
        },
        "assumptions": [
            "sampling: a clean batch is evidence, not proof; sizes bounded (mostly len <= 12 and <= 4 pulling threads; 4 % of the runs 31-129 elements, 0.4 % 257-2141; thorough tier up to 24 elements and 6 threads)",
            "values are sequentially consistent interleavings plus bounded staleness of relaxed/acquire loads (F8); happens-before is computed from the orderings the crate passes to the shim",
            "wrapped iterators are finite probes (C09 also uses one that never ends); probes that are not fused and exact size hints that under- or over-report are generated deliberately in the checks listed in DESIGN.md section 13; other misbehaviour of a wrapped iterator is not generated",
            "synchronisation that bypasses the shimmed atomics is invisible to the simulator"
        ],
        "wall_s": wall,
        "violations": violations,
    });
    let path = format!("{}/evidence/{prop}.json", verif_dir());
    let _ = std::fs::create_dir_all(format!("{}/evidence", verif_dir()));
    std::fs::write(&path, serde_json::to_string_pretty(&ev).expect("json")).expect("write evidence");
}
