//! Runs a configuration and judges it: the ordinary oracles, plus the property-specific
//! second executions (C13: twin run of the adaptor's underlying iterator).

use crate::oracle::{evaluate, Facts, Finding};
use crate::work::*;

pub fn run_and_judge(cfg: &RunCfg, run_no: u32) -> (RunRecord, Vec<Finding>, Facts) {
    let rec = execute(cfg, run_no);
    let (mut findings, facts) = evaluate(cfg, &rec);
    if cfg.prop == "C13" && !cfg.sim.call_granular {
        // fine-grained run of an adaptor kind: every general oracle applies. A finding that the
        // underlying iterator does not show under the same configuration is the adaptor's.
        if let Some(under) = cfg.kind.underlying() {
            let own: Vec<Finding> = findings
                .iter()
                .filter(|f| f.prop != "C13" && f.prop != "C15")
                .cloned()
                .collect();
            if let Some(first) = own.first() {
                let mut twin = cfg.clone();
                twin.kind = under;
                let rec2 = execute(&twin, run_no.wrapping_add(7));
                let (f2, _) = evaluate(&twin, &rec2);
                if !f2.iter().any(|f| f.class == first.class) {
                    findings.push(Finding {
                        prop: "C13".into(),
                        class: format!("adaptor-only:{}", first.class),
                        msg: format!(
                            "the {:?} adaptor misbehaves where the underlying {:?} iterator does not (same workload, fine-grained schedule): [{}] {}",
                            cfg.kind, under, first.prop, first.msg
                        ),
                    });
                }
            }
        }
    } else if cfg.prop == "C13" {
        if let Some(under) = cfg.kind.underlying() {
            let mut twin = cfg.clone();
            twin.kind = under;
            let rec2 = execute(&twin, run_no.wrapping_add(7));
            if let Some(msg) = compare_twins(cfg, &rec, &rec2) {
                findings.push(Finding {
                    prop: "C13".into(),
                    class: "twin-divergence".into(),
                    msg,
                });
            }
            if cfg.kind.is_cloned() && !rec.sim.aborted && cfg.panic.is_none() {
                // one clone per element actually handed to the caller
                let consumed: usize = rec
                    .calls
                    .iter()
                    .map(|c| match &c.res {
                        Res::Item { .. } => 1,
                        Res::Chunk { items, .. } => items.len(),
                        Res::Multi { items, .. } => items.len(),
                        _ => 0,
                    })
                    .sum::<usize>()
                    + rec.seq_items.as_ref().map(|v| v.len()).unwrap_or(0);
                // elements the caller skipped with nth() may or may not have been cloned
                // (std's adaptors are free to do either)
                // (the same holds for the rest of a chunk that was finished with count()/last())
                let skipped: usize = rec
                    .calls
                    .iter()
                    .map(|c| match &c.res {
                        Res::Chunk {
                            skipped,
                            finish,
                            announced,
                            items,
                            ..
                        } => {
                            skipped
                                + if *finish != 0 {
                                    announced.saturating_sub(skipped + items.len())
                                } else {
                                    0
                                }
                        }
                        _ => 0,
                    })
                    .sum();
                let clones: u32 = rec.ledger.clones.iter().sum();
                if (clones as usize) < consumed || clones as usize > consumed + skipped {
                    findings.push(Finding {
                        prop: "C13".into(),
                        class: "clone-count".into(),
                        msg: format!(
                            "{clones} clones were made for {consumed} elements handed to callers (and {skipped} skipped with nth)"
                        ),
                    });
                }
            }
        }
    }
    (rec, findings, facts)
}

fn same_item(a: &crate::elems::ItemObs, b: &crate::elems::ItemObs) -> bool {
    a.raw == b.raw && a.payload == b.payload
}

fn res_equal(a: &Res, b: &Res) -> bool {
    match (a, b) {
        (Res::Item { idx: i1, obs: o1 }, Res::Item { idx: i2, obs: o2 }) => {
            i1 == i2 && same_item(o1, o2)
        }
        (
            Res::Chunk {
                begin: b1,
                announced: a1,
                items: it1,
                lens: l1,
                exhausted: e1,
                impossible: m1,
                skipped: s1,
                finish_count: c1,
                finish_last: f1,
                ..
            },
            Res::Chunk {
                begin: b2,
                announced: a2,
                items: it2,
                lens: l2,
                exhausted: e2,
                impossible: m2,
                skipped: s2,
                finish_count: c2,
                finish_last: f2,
                ..
            },
        ) => {
            s1 == s2
                && c1 == c2
                && f1.map(|o| o.raw) == f2.map(|o| o.raw)
                && b1 == b2
                && a1 == a2
                && l1 == l2
                && e1 == e2
                && m1 == m2
                && it1.len() == it2.len()
                && it1.iter().zip(it2).all(|(x, y)| same_item(x, y))
        }
        (Res::Multi { items: i1, acc: a1 }, Res::Multi { items: i2, acc: a2 }) => {
            a1 == a2
                && i1.len() == i2.len()
                && i1
                    .iter()
                    .zip(i2)
                    .all(|((x1, o1), (x2, o2))| x1 == x2 && same_item(o1, o2))
        }
        (Res::Panicked { injected: p1, .. }, Res::Panicked { injected: p2, .. }) => p1 == p2,
        (x, y) => x == y,
    }
}

/// Operation-by-operation comparison of the adaptor's transcript with that of the underlying
/// reference-yielding iterator driven by the same operations under the same call-level schedule.
fn compare_twins(cfg: &RunCfg, a: &RunRecord, u: &RunRecord) -> Option<String> {
    if a.sim.aborted != u.sim.aborted {
        return Some(format!(
            "one twin hung and the other did not: adaptor {:?}, underlying {:?}",
            a.sim.verdict, u.sim.verdict
        ));
    }
    if a.sim.aborted {
        return None;
    }
    if a.calls.len() != u.calls.len() {
        return Some(format!(
            "the {:?} adaptor made {} calls, the underlying iterator {}",
            cfg.kind,
            a.calls.len(),
            u.calls.len()
        ));
    }
    for (i, (x, y)) in a.calls.iter().zip(&u.calls).enumerate() {
        if x.tid != y.tid || x.kind != y.kind || x.arg != y.arg {
            return Some(format!(
                "call #{i} differs in the order of calls: adaptor T{} {:?}({}), underlying T{} {:?}({})",
                x.tid, x.kind, x.arg as i64, y.tid, y.kind, y.arg as i64
            ));
        }
        if !res_equal(&x.res, &y.res) {
            return Some(format!(
                "call #{i} T{} {:?}({}): the {:?} adaptor returned {}, the underlying iterator {}",
                x.tid,
                x.kind,
                x.arg as i64,
                cfg.kind,
                crate::stats::brief_res(&x.res),
                crate::stats::brief_res(&y.res)
            ));
        }
    }
    match (&a.seq_items, &u.seq_items) {
        (Some(x), Some(y)) => {
            if x.len() != y.len() || !x.iter().zip(y).all(|(p, q)| same_item(p, q)) {
                return Some(format!(
                    "into_seq_iter of the adaptor yielded {:?}, of the underlying iterator {:?}",
                    x.iter().map(|o| o.raw).collect::<Vec<_>>(),
                    y.iter().map(|o| o.raw).collect::<Vec<_>>()
                ));
            }
        }
        (None, None) => {}
        _ => return Some("only one twin produced an into_seq_iter result".into()),
    }
    None
}
