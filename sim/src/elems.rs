//! Element types with observable identity, clone and destructor; the drop/move ledger (C08);
//! the probe iterator (C07, C18).

use crate::alloc;
use crate::sim;
use serde::{Deserialize, Serialize};
use std::sync::Mutex;

#[derive(Clone, Copy, Debug, PartialEq, Eq, Serialize, Deserialize)]
pub struct ItemObs {
    /// element id, or the value for ranges
    pub raw: u64,
    pub payload: u64,
    /// address of the referenced element for reference-yielding kinds, else 0
    pub addr: usize,
    /// 0 original, 1 clone/copy
    pub gen: u8,
}

pub trait Obs {
    fn obs(&self) -> ItemObs;
}

pub fn payload_of(seed: u64, id: u64) -> u64 {
    crate::rng::mix(&[seed, id, 0x9a71])
}

// ---------------------------------------------------------------------------------------------
// ledger

#[derive(Clone, Debug, Default, Serialize, Deserialize)]
pub struct Ledger {
    pub n: usize,
    pub run: u32,
    /// destructor runs of the original with this id
    pub dropped: Vec<u32>,
    pub clones: Vec<u32>,
    pub clone_drops: Vec<u32>,
    /// (id, seq, tid) of every destructor run beyond the first
    pub double_drops: Vec<(u32, u64, usize)>,
    /// destructor runs of objects that are not elements of this run (garbage / stale)
    pub foreign_drops: u32,
    pub clone_calls: u32,
    pub clone_panic_at: Option<u32>,
    pub injected_panics: u32,
    /// destructor runs of zero-sized `Token` elements (they have no identity: counted only)
    #[serde(default)]
    pub zst_drops: u32,
    /// the destructor of the (original) element with this id panics, once, unless the thread
    /// is unwinding already
    #[serde(default)]
    pub drop_panic_id: Option<u32>,
}

static LEDGER: Mutex<Ledger> = Mutex::new(Ledger {
    n: 0,
    run: 0,
    dropped: Vec::new(),
    clones: Vec::new(),
    clone_drops: Vec::new(),
    double_drops: Vec::new(),
    foreign_drops: 0,
    clone_calls: 0,
    clone_panic_at: None,
    injected_panics: 0,
    zst_drops: 0,
    drop_panic_id: None,
});

fn ledger() -> std::sync::MutexGuard<'static, Ledger> {
    LEDGER.lock().unwrap_or_else(|e| e.into_inner())
}

pub fn ledger_reset(n: usize, run: u32, clone_panic_at: Option<u32>) {
    let _p = alloc::pause();
    let mut l = ledger();
    *l = Ledger {
        n,
        run,
        dropped: vec![0; n],
        clones: vec![0; n],
        clone_drops: vec![0; n],
        clone_panic_at,
        ..Default::default()
    };
}

pub fn set_drop_panic(id: Option<u32>) {
    let _p = alloc::pause();
    ledger().drop_panic_id = id;
}

pub fn ledger_snapshot() -> Ledger {
    let _p = alloc::pause();
    ledger().clone()
}

/// Payload of injected panics, so the harness can tell them from the crate's own.
pub struct Injected(pub &'static str);

pub fn inject_panic(site: &'static str) -> ! {
    {
        let _p = alloc::pause();
        ledger().injected_panics += 1;
    }
    std::panic::resume_unwind(Box::new(Injected(site)))
}

// ---------------------------------------------------------------------------------------------
// Elem: identity + destructor + clone

pub struct Elem {
    pub id: u32,
    pub run: u32,
    pub gen: u8,
    pub payload: u64,
    pub heap: Option<Box<[u8]>>,
}

impl Elem {
    pub fn new(id: u32, run: u32, seed: u64, heap_bytes: usize) -> Self {
        Elem {
            id,
            run,
            gen: 0,
            payload: payload_of(seed, id as u64),
            heap: if heap_bytes > 0 {
                Some(vec![id as u8; heap_bytes].into_boxed_slice())
            } else {
                None
            },
        }
    }
}

impl Drop for Elem {
    fn drop(&mut self) {
        let _p = alloc::pause();
        let seq = sim::next_seq();
        let mut l = ledger();
        if self.run != l.run || self.id as usize >= l.n || self.gen > 1 {
            l.foreign_drops += 1;
            return;
        }
        let id = self.id as usize;
        if self.gen == 0 {
            l.dropped[id] += 1;
            if l.dropped[id] > 1 {
                let t = sim::tid().unwrap_or(99);
                l.double_drops.push((self.id, seq, t));
            }
            if l.drop_panic_id == Some(self.id) && l.dropped[id] == 1 && !std::thread::panicking() {
                // a destructor that panics (the element counts as destroyed): whoever was
                // disposing of a run of elements must still dispose of the others
                l.injected_panics += 1;
                drop(l);
                drop(_p);
                std::panic::resume_unwind(Box::new(Injected("element-destructor")));
            }
        } else {
            l.clone_drops[id] += 1;
        }
    }
}

impl Clone for Elem {
    fn clone(&self) -> Self {
        let fire = {
            let _p = alloc::pause();
            let mut l = ledger();
            let k = l.clone_calls;
            l.clone_calls += 1;
            l.clone_panic_at == Some(k)
        };
        sim::sched_point("clone");
        if fire {
            inject_panic("clone");
        }
        {
            let _p = alloc::pause();
            let mut l = ledger();
            if (self.id as usize) < l.n && self.run == l.run {
                l.clones[self.id as usize] += 1;
            }
        }
        Elem {
            id: self.id,
            run: self.run,
            gen: 1,
            payload: self.payload,
            heap: self.heap.clone(),
        }
    }
}

impl Obs for Elem {
    fn obs(&self) -> ItemObs {
        ItemObs {
            raw: self.id as u64,
            payload: self.payload,
            addr: 0,
            gen: self.gen,
        }
    }
}

impl Obs for &Elem {
    fn obs(&self) -> ItemObs {
        ItemObs {
            raw: self.id as u64,
            payload: self.payload,
            addr: *self as *const Elem as usize,
            gen: self.gen,
        }
    }
}

/// `Copy` element for `copied()`.
#[derive(Clone, Copy, Debug)]
pub struct Plain {
    pub id: u32,
    pub payload: u64,
}

impl Obs for Plain {
    fn obs(&self) -> ItemObs {
        ItemObs {
            raw: self.id as u64,
            payload: self.payload,
            addr: 0,
            gen: 1,
        }
    }
}

impl Obs for &Plain {
    fn obs(&self) -> ItemObs {
        ItemObs {
            raw: self.id as u64,
            payload: self.payload,
            addr: *self as *const Plain as usize,
            gen: 0,
        }
    }
}

/// Element that is not `Clone` (kind `SliceNoClone`, C19).
pub struct NoClone {
    pub id: u32,
    pub payload: u64,
}

impl Obs for &NoClone {
    fn obs(&self) -> ItemObs {
        ItemObs {
            raw: self.id as u64,
            payload: self.payload,
            addr: *self as *const NoClone as usize,
            gen: 0,
        }
    }
}

/// Zero-sized element with a destructor (kinds `VecZst`, `ArrayZst`; added after the seeded
/// changes C03-r2 / C10-r2 / C15-r2, which all broke zero-sized elements only). It has no identity:
/// the harness labels it with the index the crate reports and the ledger only counts destructor runs.
pub struct Token;

impl Drop for Token {
    fn drop(&mut self) {
        let _p = alloc::pause();
        ledger().zst_drops += 1;
    }
}

impl Obs for Token {
    fn obs(&self) -> ItemObs {
        ItemObs {
            raw: u64::MAX,
            payload: 0,
            addr: 0,
            gen: 0,
        }
    }
}

/// `Clone` but neither `Copy` nor `Drop`: a clone is distinguishable from a bitwise copy
/// (generation 1, counted in the ledger). Used by the `ClonedStampSlice` kind.
pub struct Stamp {
    pub id: u32,
    pub run: u32,
    pub gen: u8,
    pub payload: u64,
}

impl Clone for Stamp {
    fn clone(&self) -> Self {
        {
            let _p = alloc::pause();
            let mut l = ledger();
            l.clone_calls += 1;
            if (self.id as usize) < l.n && self.run == l.run {
                l.clones[self.id as usize] += 1;
                // there is no destructor to count: balance the clone ledger right away
                l.clone_drops[self.id as usize] += 1;
            }
        }
        sim::sched_point("clone");
        Stamp {
            id: self.id,
            run: self.run,
            gen: 1,
            payload: self.payload,
        }
    }
}

impl Obs for Stamp {
    fn obs(&self) -> ItemObs {
        ItemObs {
            raw: self.id as u64,
            payload: self.payload,
            addr: 0,
            gen: self.gen,
        }
    }
}

impl Obs for &Stamp {
    fn obs(&self) -> ItemObs {
        ItemObs {
            raw: self.id as u64,
            payload: self.payload,
            addr: *self as *const Stamp as usize,
            gen: self.gen,
        }
    }
}

impl Obs for usize {
    fn obs(&self) -> ItemObs {
        ItemObs {
            raw: *self as u64,
            payload: 0,
            addr: 0,
            gen: 0,
        }
    }
}

// ---------------------------------------------------------------------------------------------
// probe iterator

#[derive(Clone, Copy, Debug, PartialEq, Eq, Serialize, Deserialize)]
pub enum Hint {
    Exact,
    /// (0, Some(n))
    Inexact,
    /// (n, None)
    Unbounded,
}

#[derive(Clone, Debug, Default, Serialize, Deserialize)]
pub struct ProbeState {
    pub inside: Option<usize>,
    pub calls: u32,
    pub panic_at: Option<u32>,
    /// (tid inside, tid entering, seq)
    pub overlaps: Vec<(usize, usize, u64)>,
    pub calls_after_none: u32,
    pub returned_none: bool,
}

static PROBE: Mutex<ProbeState> = Mutex::new(ProbeState {
    inside: None,
    calls: 0,
    panic_at: None,
    overlaps: Vec::new(),
    calls_after_none: 0,
    returned_none: false,
});

fn probe() -> std::sync::MutexGuard<'static, ProbeState> {
    PROBE.lock().unwrap_or_else(|e| e.into_inner())
}

pub fn probe_reset(panic_at: Option<u32>) {
    let _p = alloc::pause();
    *probe() = ProbeState {
        panic_at,
        ..Default::default()
    };
}

pub fn probe_snapshot() -> ProbeState {
    let _p = alloc::pause();
    probe().clone()
}

pub const PROBE_OBJ: u32 = 1;

pub struct Probe<I: Iterator> {
    inner: I,
    hint: Hint,
    remaining: usize,
    /// non-fused source: after `remaining` elements the probe returns None ONCE and would then go
    /// on yielding the `tail` further elements of `inner` if it is (wrongly) asked again
    gap_pending: bool,
}

impl<I: Iterator> Probe<I> {
    pub fn new(inner: I, len: usize, hint: Hint) -> Self {
        Probe {
            inner,
            hint,
            remaining: len,
            gap_pending: false,
        }
    }

    /// `inner` holds more than `len` elements: the probe is not fused (see `gap_pending`).
    pub fn not_fused(mut self) -> Self {
        self.gap_pending = true;
        self
    }
}

struct InsideGuard;

impl Drop for InsideGuard {
    fn drop(&mut self) {
        let _p = alloc::pause();
        probe().inside = None;
    }
}

impl<I: Iterator> Iterator for Probe<I> {
    type Item = I::Item;

    fn next(&mut self) -> Option<I::Item> {
        let me = sim::tid();
        let fire = {
            let _p = alloc::pause();
            let seq = sim::next_seq();
            let mut p = probe();
            if let (Some(other), Some(me)) = (p.inside, me) {
                p.overlaps.push((other, me, seq));
            }
            p.inside = me.or(Some(98));
            let k = p.calls;
            p.calls += 1;
            if p.returned_none {
                p.calls_after_none += 1;
            }
            p.panic_at == Some(k)
        };
        let _g = InsideGuard;
        sim::na_access(PROBE_OBJ, "wrapped-iterator.next enter");
        sim::interesting();
        sim::sched_point("probe-enter");
        if fire {
            inject_panic("wrapped-next");
        }
        let x = if self.gap_pending && self.remaining == 0 {
            // the (first) end of a non-fused source
            self.gap_pending = false;
            None
        } else {
            self.inner.next()
        };
        match x {
            Some(_) => self.remaining = self.remaining.saturating_sub(1),
            None => {
                let _p = alloc::pause();
                probe().returned_none = true;
            }
        }
        sim::sched_point("probe-mid");
        sim::na_access(PROBE_OBJ, "wrapped-iterator.next exit");
        x
    }

    fn size_hint(&self) -> (usize, Option<usize>) {
        // a read of the wrapped iterator's state: it must neither overlap with a `next` running
        // on another thread nor be unordered with it (added after seeded change C07-r2)
        if let Some(me) = sim::tid() {
            {
                let _p = alloc::pause();
                let seq = sim::next_seq();
                let mut p = probe();
                if let Some(other) = p.inside {
                    if other != me {
                        p.overlaps.push((other, me, seq));
                    }
                }
            }
            sim::na_access(PROBE_OBJ, "wrapped-iterator.size_hint");
            sim::sched_point("probe-size-hint");
        }
        match self.hint {
            Hint::Exact => (self.remaining, Some(self.remaining)),
            Hint::Inexact => (0, Some(self.remaining)),
            Hint::Unbounded => (self.remaining, None),
        }
    }
}
