//! The deterministic simulator: baton scheduler, spin-loop-to-blocked model, vector clocks.
//!
//! Virtual threads are real OS threads; exactly one of them holds the baton at any time and only
//! the baton holder executes code of the crate under test. Every hooked atomic operation, every
//! probe event and every API call boundary is a scheduling point at which the (seeded) scheduler
//! decides who holds the baton next. See DESIGN.md section 4.

use crate::alloc;
use crate::rng::{mix, Rng};
use orx_concurrent_iter::verif_hooks::{self as vh, Op, OpKind, Ordering};
use serde::{Deserialize, Serialize};
use std::cell::Cell;
use std::collections::BTreeMap;
use std::sync::atomic::{AtomicBool, AtomicUsize, Ordering as O};
use std::sync::Mutex;

pub const MAXT: usize = 8;
pub type VC = [u32; MAXT];
const NONE: usize = usize::MAX;
pub const MAIN: usize = usize::MAX - 1;
const PROBATION_ROUNDS: u32 = 24;
const MAX_LOADS: usize = 96;

#[derive(Clone, Copy, Debug, PartialEq, Eq, Serialize, Deserialize)]
pub enum Strategy {
    Uniform,
    /// keep the running thread with probability p/100
    Sticky(u8),
    /// PCT with d priority change points
    Pct(u8),
    /// uniform, but force a context switch right after interesting events
    Targeted,
    /// follow the recorded deviation list; default policy elsewhere
    Replay,
}

#[derive(Clone, Copy, Debug, PartialEq, Eq, Serialize, Deserialize)]
pub struct Freeze {
    pub tid: usize,
    /// the thread is frozen at its n-th scheduling point
    pub at: u32,
    /// None: until every other thread has finished or is blocked; Some(k): for k global steps
    pub steps: Option<u32>,
}

#[derive(Clone, Debug, Serialize, Deserialize)]
pub struct SimCfg {
    pub nthreads: usize,
    pub strategy: Strategy,
    pub sched_seed: u64,
    pub step_cap: u64,
    /// (decision index, thread) pairs: deviations from the default policy (Replay strategy)
    pub deviations: Vec<(u64, usize)>,
    pub freeze: Option<Freeze>,
    /// F8: probability (per mille) that a relaxed/acquire load returns an older, still allowed value
    pub stale_permille: u32,
    pub stale_seed: u64,
    /// preempt only at API call boundaries (C13 twin runs)
    pub call_granular: bool,
    pub trace: bool,
}

impl SimCfg {
    pub fn simple(nthreads: usize, seed: u64) -> Self {
        SimCfg {
            nthreads,
            strategy: Strategy::Uniform,
            sched_seed: seed,
            step_cap: 100_000,
            deviations: vec![],
            freeze: None,
            stale_permille: 0,
            stale_seed: 0,
            call_granular: false,
            trace: false,
        }
    }
}

#[derive(Clone, Debug, Serialize, Deserialize, PartialEq)]
pub enum Verdict {
    /// no thread runnable, some blocked in a spin loop; (tid, watched locs with current values)
    Deadlock(Vec<(usize, Vec<(usize, usize)>)>),
    StepCap(u64),
}

#[derive(Clone, Debug, Default, Serialize, Deserialize)]
pub struct SimStats {
    pub steps: u64,
    pub decisions: u64,
    pub atomic_ops: u64,
    pub blocks: u64,
    pub wakes: u64,
    pub switches: u64,
    pub preemptions: u64,
    pub stale_loads: u64,
    pub freezes: u64,
    pub unfreezes: u64,
    pub probations: u64,
    pub blocked_while_frozen: u64,
    /// read-modify-write operations on a word-sized atomic whose new value is smaller than the old one
    #[serde(default)]
    pub counter_wraps: u64,
}

#[derive(Clone, Debug, Serialize, Deserialize)]
pub struct Race {
    pub object: u32,
    pub what: String,
    pub first_tid: usize,
    pub first_seq: u64,
    pub second_tid: usize,
    pub second_seq: u64,
    pub recent_ops_of_second: Vec<String>,
}

#[derive(Clone, Debug, Default)]
pub struct SimOutcome {
    pub verdict: Option<Verdict>,
    pub stats: SimStats,
    pub deviations: Vec<(u64, usize)>,
    pub event_hash: u64,
    pub conflict_hash: u64,
    pub cross_thread_conflicts: u64,
    pub races: Vec<Race>,
    /// a registered thread was put into the Blocked state (tid, seq)
    pub blocked_events: Vec<(usize, u64)>,
    pub trace: Vec<String>,
    pub aborted: bool,
}

#[derive(Clone, Copy, PartialEq, Eq, Debug)]
enum Status {
    NotStarted,
    Runnable,
    Blocked,
    Frozen,
    Finished,
}

struct LocState {
    version: u64,
    value: usize,
    release: VC,
    /// history of writes: (version, value, writer tid, writer epoch) for F8
    writes: Vec<(u64, usize, usize, u32)>,
    order_hash: u64,
    last_tid: usize,
}

struct Th {
    status: Status,
    clock: VC,
    pending_acq: VC,
    fence_rel: VC,
    loads: Vec<(usize, u64)>,
    watch: Vec<usize>,
    probation: Option<u32>,
    sched_points: u32,
    frozen_until: Option<u64>,
    prio: i64,
    recent: Vec<String>,
    /// per location: last version this thread has observed (coherence floor for F8)
    seen: BTreeMap<usize, u64>,
    stale_run: BTreeMap<usize, u32>,
    nloads: u64,
}

struct NaState {
    last: Option<(usize, u32, u64)>, // tid, epoch, seq
    order_hash: u64,
}

struct State {
    cfg: SimCfg,
    th: Vec<Th>,
    rng: Rng,
    locs: Vec<LocState>,
    loc_ids: BTreeMap<usize, usize>,
    na: BTreeMap<u32, NaState>,
    seq: u64,
    stats: SimStats,
    deviations: Vec<(u64, usize)>,
    dev_map: BTreeMap<u64, usize>,
    verdict: Option<Verdict>,
    hash: u64,
    races: Vec<Race>,
    blocked_events: Vec<(usize, u64)>,
    trace: Vec<String>,
    change_points: Vec<u64>,
    next_low_prio: i64,
    force_switch: bool,
    cross_conflicts: u64,
    freeze_fired: bool,
}

pub struct Shared {
    state: Mutex<Option<Box<State>>>,
    current: AtomicUsize,
    abort: AtomicBool,
}

pub static SH: Shared = Shared {
    state: Mutex::new(None),
    current: AtomicUsize::new(NONE),
    abort: AtomicBool::new(false),
};

thread_local! {
    static TID: Cell<usize> = const { Cell::new(NONE) };
}

/// Payload of the panic used to tear down a hung run.
pub struct SimAbort;

pub fn tid() -> Option<usize> {
    let t = TID.with(|t| t.get());
    if t == NONE {
        None
    } else {
        Some(t)
    }
}

fn fnv(h: &mut u64, x: u64) {
    for b in x.to_le_bytes() {
        *h ^= b as u64;
        *h = h.wrapping_mul(0x0000_0100_0000_01B3);
    }
}

fn vc_join(a: &mut VC, b: &VC) {
    for i in 0..MAXT {
        if b[i] > a[i] {
            a[i] = b[i];
        }
    }
}

fn has_acquire(o: Ordering) -> bool {
    matches!(o, Ordering::Acquire | Ordering::AcqRel | Ordering::SeqCst)
}

fn has_release(o: Ordering) -> bool {
    matches!(o, Ordering::Release | Ordering::AcqRel | Ordering::SeqCst)
}

fn ord_code(o: Ordering) -> u64 {
    match o {
        Ordering::Relaxed => 0,
        Ordering::Release => 1,
        Ordering::Acquire => 2,
        Ordering::AcqRel => 3,
        Ordering::SeqCst => 4,
        _ => 5,
    }
}

fn lock() -> std::sync::MutexGuard<'static, Option<Box<State>>> {
    SH.state.lock().unwrap_or_else(|e| e.into_inner())
}

fn raise_abort() -> ! {
    std::panic::resume_unwind(Box::new(SimAbort))
}

static PARKED: [AtomicBool; MAXT] = [const { AtomicBool::new(false) }; MAXT];
static HANDLES: Mutex<Vec<Option<std::thread::Thread>>> = Mutex::new(Vec::new());

/// Hands the baton to thread `n` (and wakes it if it went to sleep while waiting).
fn pass_baton(n: usize) {
    SH.current.store(n, O::SeqCst);
    if n < MAXT && PARKED[n].load(O::SeqCst) {
        let h = HANDLES.lock().unwrap_or_else(|e| e.into_inner());
        if let Some(Some(t)) = h.get(n) {
            t.unpark();
        }
    }
}

fn register_handle(t: usize) {
    let mut h = HANDLES.lock().unwrap_or_else(|e| e.into_inner());
    if h.len() < MAXT {
        h.resize(MAXT, None);
    }
    h[t] = Some(std::thread::current());
}

/// Waits for the baton: spin, then yield, then sleep (woken by `pass_baton`; the timeout makes a
/// missed wake-up harmless). Who runs is decided by the scheduler alone; this only decides how
/// the waiting threads burn (or do not burn) CPU.
fn wait_for_baton(me: usize) {
    let mut spins = 0u32;
    loop {
        if SH.current.load(O::SeqCst) == me {
            return;
        }
        if SH.abort.load(O::Relaxed) {
            return;
        }
        spins += 1;
        if spins < 64 {
            std::hint::spin_loop();
        } else if spins < 160 || me >= MAXT {
            std::thread::yield_now();
        } else {
            PARKED[me].store(true, O::SeqCst);
            if SH.current.load(O::SeqCst) != me && !SH.abort.load(O::SeqCst) {
                std::thread::park_timeout(std::time::Duration::from_micros(500));
            }
            PARKED[me].store(false, O::SeqCst);
        }
    }
}

impl State {
    fn new(cfg: SimCfg) -> Self {
        let mut rng = Rng::new(mix(&[cfg.sched_seed, 0x5c4ed]));
        // worker threads 0..nthreads, then the sequential-prefix thread and the terminal thread
        let n = cfg.nthreads + 2;
        let mut th = Vec::with_capacity(n);
        // PCT: distinct random priorities
        let mut prios: Vec<i64> = (0..n as i64).map(|i| 1000 + i).collect();
        for i in (1..n).rev() {
            let j = rng.below(i + 1);
            prios.swap(i, j);
        }
        for t in 0..n {
            let mut clock = [0u32; MAXT];
            clock[t] = 1;
            th.push(Th {
                status: Status::NotStarted,
                clock,
                pending_acq: [0; MAXT],
                fence_rel: [0; MAXT],
                loads: Vec::new(),
                watch: Vec::new(),
                probation: None,
                sched_points: 0,
                frozen_until: None,
                prio: prios[t],
                recent: Vec::new(),
                seen: BTreeMap::new(),
                stale_run: BTreeMap::new(),
                nloads: 0,
            });
        }
        let mut change_points = Vec::new();
        if let Strategy::Pct(d) = cfg.strategy {
            let est = 30 * n as u64 + 20;
            for _ in 0..d {
                change_points.push(1 + rng.next_u64() % est);
            }
        }
        let dev_map = cfg.deviations.iter().cloned().collect();
        State {
            cfg,
            th,
            rng,
            locs: Vec::new(),
            loc_ids: BTreeMap::new(),
            na: BTreeMap::new(),
            seq: 0,
            stats: SimStats::default(),
            deviations: Vec::new(),
            dev_map,
            verdict: None,
            hash: 0xcbf2_9ce4_8422_2325,
            races: Vec::new(),
            blocked_events: Vec::new(),
            trace: Vec::new(),
            change_points,
            next_low_prio: 0,
            force_switch: false,
            cross_conflicts: 0,
            freeze_fired: false,
        }
    }

    fn loc(&mut self, addr: usize, initial: impl FnOnce() -> usize) -> usize {
        if let Some(&id) = self.loc_ids.get(&addr) {
            return id;
        }
        let id = self.locs.len();
        self.loc_ids.insert(addr, id);
        let v = initial();
        self.locs.push(LocState {
            version: 0,
            value: v,
            release: [0; MAXT],
            writes: vec![(0, v, NONE, 0)],
            order_hash: 0,
            last_tid: NONE,
        });
        id
    }

    fn runnable(&self) -> Vec<usize> {
        (0..self.th.len())
            .filter(|&t| self.th[t].status == Status::Runnable)
            .collect()
    }

    /// Spin rule "two identical periods" (DESIGN.md 4.3).
    fn spin_check(&self, t: usize, loc: usize) -> bool {
        let list = &self.th[t].loads;
        let cur = self.locs[loc].version;
        let mut i = None;
        let mut j = None;
        for (k, e) in list.iter().enumerate().rev() {
            if e.0 == loc {
                if i.is_none() {
                    i = Some(k);
                } else {
                    j = Some(k);
                    break;
                }
            }
        }
        let (Some(i), Some(j)) = (i, j) else {
            return false;
        };
        let n = list.len();
        if i - j != n - i {
            return false;
        }
        if list[j..i] != list[i..] {
            return false;
        }
        if list[i].1 != cur {
            return false;
        }
        for &(l, v) in &list[i..] {
            if self.locs[l].version != v {
                return false;
            }
        }
        true
    }

    fn choose(&mut self, me: Option<usize>, runnable: &[usize]) -> usize {
        let default = match me {
            Some(m) if runnable.contains(&m) => m,
            _ => runnable[0],
        };
        let d = self.stats.decisions;
        self.stats.decisions += 1;
        let me_runnable = me.map(|m| runnable.contains(&m)).unwrap_or(false);
        let chosen = match self.cfg.strategy {
            Strategy::Replay => match self.dev_map.get(&d) {
                Some(t) if runnable.contains(t) => *t,
                _ => default,
            },
            Strategy::Uniform => runnable[self.rng.below(runnable.len())],
            Strategy::Sticky(p) => {
                if me_runnable && self.rng.chance(p as u64, 100) {
                    default
                } else {
                    runnable[self.rng.below(runnable.len())]
                }
            }
            Strategy::Pct(_) => {
                if self.change_points.contains(&self.stats.steps) {
                    if let Some(m) = me {
                        self.next_low_prio -= 1;
                        self.th[m].prio = self.next_low_prio;
                    }
                }
                *runnable
                    .iter()
                    .max_by_key(|&&t| self.th[t].prio)
                    .expect("non-empty")
            }
            Strategy::Targeted => {
                let others: Vec<usize> = runnable
                    .iter()
                    .cloned()
                    .filter(|&t| Some(t) != me)
                    .collect();
                if self.force_switch && !others.is_empty() {
                    self.force_switch = false;
                    others[self.rng.below(others.len())]
                } else if me_runnable && self.rng.chance(70, 100) {
                    default
                } else {
                    runnable[self.rng.below(runnable.len())]
                }
            }
        };
        if chosen != default {
            self.deviations.push((d, chosen));
        }
        chosen
    }

    /// Decides who runs next. `None` = nobody can run (verdict set) .
    /// `Some(MAIN)` = all virtual threads finished.
    fn pick(&mut self, me: Option<usize>) -> Option<usize> {
        loop {
            // bounded stalls that expired
            for t in 0..self.th.len() {
                if self.th[t].status == Status::Frozen {
                    if let Some(until) = self.th[t].frozen_until {
                        if self.stats.steps >= until {
                            self.th[t].status = Status::Runnable;
                            self.stats.unfreezes += 1;
                        }
                    }
                }
            }
            let runnable = self.runnable();
            if !runnable.is_empty() {
                return Some(self.choose(me, &runnable));
            }
            let frozen: Vec<usize> = (0..self.th.len())
                .filter(|&t| self.th[t].status == Status::Frozen)
                .collect();
            let blocked: Vec<usize> = (0..self.th.len())
                .filter(|&t| self.th[t].status == Status::Blocked)
                .collect();
            if !frozen.is_empty() {
                if !blocked.is_empty() {
                    self.stats.blocked_while_frozen += 1;
                }
                for t in frozen {
                    self.th[t].status = Status::Runnable;
                    self.stats.unfreezes += 1;
                }
                continue;
            }
            if blocked.is_empty() {
                return Some(MAIN);
            }
            if blocked.iter().all(|&t| self.th[t].probation == Some(0)) {
                let detail = blocked
                    .iter()
                    .map(|&t| {
                        (
                            t,
                            self.th[t]
                                .watch
                                .iter()
                                .map(|&l| (l, self.locs[l].value))
                                .collect(),
                        )
                    })
                    .collect();
                self.verdict = Some(Verdict::Deadlock(detail));
                return None;
            }
            for &t in &blocked {
                if self.th[t].probation.is_none() {
                    self.th[t].probation = Some(PROBATION_ROUNDS);
                    self.th[t].status = Status::Runnable;
                    self.th[t].loads.clear();
                    self.stats.probations += 1;
                }
            }
        }
    }

    fn note(&mut self, t: usize, s: String) {
        if self.cfg.trace {
            self.trace.push(format!("#{} T{} {}", self.seq, t, s.clone()));
        }
        let r = &mut self.th[t].recent;
        if r.len() >= 8 {
            r.remove(0);
        }
        r.push(s);
    }
}

/// What the running thread must do after the scheduler decided.
enum Handoff {
    Keep,
    To(usize),
    Abort,
}

fn decide(st: &mut State, me: usize) -> Handoff {
    st.stats.steps += 1;
    if st.stats.steps > st.cfg.step_cap && st.verdict.is_none() {
        st.verdict = Some(Verdict::StepCap(st.stats.steps));
        return Handoff::Abort;
    }
    match st.pick(Some(me)) {
        None => Handoff::Abort,
        Some(n) if n == me => Handoff::Keep,
        Some(n) => {
            st.stats.switches += 1;
            if st.th[me].status == Status::Runnable {
                st.stats.preemptions += 1;
            }
            Handoff::To(n)
        }
    }
}

thread_local! {
    /// set while a thread deliberately executes operations from a destructor during unwinding
    /// (`Op::InUnwind`): it is scheduled like any other thread
    static IN_UNWIND_CTX: std::cell::Cell<bool> = const { std::cell::Cell::new(false) };
}

pub fn set_unwind_ctx(on: bool) {
    IN_UNWIND_CTX.with(|c| c.set(on));
}

/// The thread is unwinding (an injected panic, or the teardown of a run): what its destructors
/// do is not scheduled. Not so inside the deliberate unwinding context of `Op::InUnwind`.
fn unwinding_unscheduled() -> bool {
    std::thread::panicking() && !IN_UNWIND_CTX.with(|c| c.get())
}

fn perform(h: Handoff, me: usize) {
    match h {
        Handoff::Keep => {}
        Handoff::To(n) => {
            pass_baton(n);
            wait_for_baton(me);
            if SH.abort.load(O::Relaxed) {
                if !unwinding_unscheduled() {
                    raise_abort();
                }
            }
        }
        Handoff::Abort => {
            SH.abort.store(true, O::SeqCst);
            if !unwinding_unscheduled() {
                raise_abort();
            }
        }
    }
}

/// A scheduling point of a registered thread that is not an atomic operation.
pub fn sched_point(what: &'static str) {
    let Some(me) = tid() else { return };
    if unwinding_unscheduled() {
        return;
    }
    if SH.abort.load(O::Relaxed) {
        raise_abort();
    }
    let _p = alloc::pause();
    let h = {
        let mut g = lock();
        let st = g.as_mut().expect("run active");
        st.seq += 1;
        if st.cfg.trace {
            st.note(me, format!("point {what}"));
        }
        if st.cfg.call_granular && !(what == "call-begin" || what == "call-end" || what == "start")
        {
            Handoff::Keep
        } else {
            maybe_freeze(st, me);
            decide(st, me)
        }
    };
    perform(h, me);
}

fn maybe_freeze(st: &mut State, me: usize) {
    st.th[me].sched_points += 1;
    if let Some(f) = st.cfg.freeze {
        if !st.freeze_fired && f.tid == me && st.th[me].sched_points >= f.at {
            // only freeze when somebody else can still run
            let others = (0..st.th.len()).any(|t| t != me && st.th[t].status == Status::Runnable);
            if others {
                st.freeze_fired = true;
                st.th[me].status = Status::Frozen;
                st.th[me].frozen_until = f.steps.map(|k| st.stats.steps + k as u64);
                st.stats.freezes += 1;
            }
        }
    }
}

/// Marks an interesting event for the `Targeted` strategy.
pub fn interesting() {
    if tid().is_none() {
        return;
    }
    let _p = alloc::pause();
    let mut g = lock();
    if let Some(st) = g.as_mut() {
        if !st.cfg.call_granular && st.rng.chance(1, 2) {
            st.force_switch = true;
        }
    }
}

/// Global event sequence number (no ties). Also usable from the unregistered main thread.
/// Global event sequence number of the run in progress (0 between runs); read by the heartbeat
/// thread of `orxsim transcript`, never by the simulation itself.
pub fn progress() -> u64 {
    lock().as_ref().map(|s| s.seq).unwrap_or(0)
}

pub fn next_seq() -> u64 {
    let _p = alloc::pause();
    let mut g = lock();
    match g.as_mut() {
        Some(st) => {
            st.seq += 1;
            st.seq
        }
        None => 0,
    }
}

/// Folds harness-level observations (call results, probe events) into the event-log hash.
pub fn hash_event(words: &[u64]) {
    let _p = alloc::pause();
    let mut g = lock();
    if let Some(st) = g.as_mut() {
        let mut h = st.hash;
        for &w in words {
            fnv(&mut h, w);
        }
        st.hash = h;
    }
}

pub fn trace_note(s: String) {
    let _p = alloc::pause();
    let mut g = lock();
    if let Some(st) = g.as_mut() {
        if st.cfg.trace {
            let t = tid().unwrap_or(99);
            st.trace.push(format!("#{} T{} {}", st.seq, t, s));
        }
    }
}

/// Begin of an API call made by a registered thread: scheduling point, resets the spin window.
pub fn call_begin() -> u64 {
    if let Some(me) = tid() {
        {
            let _p = alloc::pause();
            let mut g = lock();
            if let Some(st) = g.as_mut() {
                st.th[me].loads.clear();
            }
        }
        sched_point("call-begin");
    }
    next_seq()
}

pub fn call_end() -> u64 {
    let s = next_seq();
    if let Some(me) = tid() {
        if !SH.abort.load(O::Relaxed) {
            {
                let _p = alloc::pause();
                let mut g = lock();
                if let Some(st) = g.as_mut() {
                    st.th[me].loads.clear();
                }
            }
            sched_point("call-end");
        }
    }
    s
}

/// Access to a non-atomic shared object (the wrapped iterator). All accesses count as writes.
/// Returns a race if the previous access by another thread does not happen-before this one
/// under the orderings the code used.
pub fn na_access(object: u32, what: &str) -> Option<Race> {
    let _p = alloc::pause();
    let mut g = lock();
    let st = g.as_mut()?;
    st.seq += 1;
    let seq = st.seq;
    let me = match tid() {
        Some(t) => t,
        None => {
            // main thread: ordered with everything by spawn/join
            st.na.insert(
                object,
                NaState {
                    last: None,
                    order_hash: 0,
                },
            );
            return None;
        }
    };
    let my_clock = st.th[me].clock;
    let entry = st.na.entry(object).or_insert(NaState {
        last: None,
        order_hash: 0,
    });
    let mut race = None;
    let mut crossed = false;
    if let Some((lt, lepoch, lseq)) = entry.last {
        if lt != me {
            crossed = true;
            if my_clock[lt] < lepoch {
                race = Some(Race {
                    object,
                    what: what.to_string(),
                    first_tid: lt,
                    first_seq: lseq,
                    second_tid: me,
                    second_seq: seq,
                    recent_ops_of_second: vec![],
                });
            }
        }
    }
    entry.last = Some((me, my_clock[me], seq));
    entry.order_hash = mix(&[entry.order_hash, me as u64]);
    if crossed {
        st.cross_conflicts += 1;
    }
    st.th[me].clock[me] += 1;
    let mut h = st.hash;
    fnv(&mut h, 0xacce55);
    fnv(&mut h, object as u64);
    fnv(&mut h, me as u64);
    st.hash = h;
    if let Some(r) = race.as_mut() {
        r.recent_ops_of_second = st.th[me].recent.clone();
        st.races.push(r.clone());
    }
    if st.cfg.trace {
        st.note(me, format!("na-access obj{object} {what}"));
    }
    race
}

// ---------------------------------------------------------------------------------------------
// the hook

struct SimHook;

impl vh::Hook for SimHook {
    fn before(&self, op: &Op) -> Option<usize> {
        let me = tid()?;
        if unwinding_unscheduled() {
            return None;
        }
        if SH.abort.load(O::Relaxed) {
            raise_abort();
        }
        let _p = alloc::pause();
        let mut stale = None;
        let h = {
            let mut g = lock();
            let st = g.as_mut()?;
            let addr = op.addr;
            let width = op.width;
            let loc = st.loc(addr, || read_raw(addr, width));
            if op.kind == OpKind::Load {
                if st.spin_check(me, loc) {
                    match st.th[me].probation {
                        Some(n) if n > 0 => {
                            st.th[me].probation = Some(n - 1);
                            st.th[me].loads.clear();
                        }
                        _ => {
                            // becomes Blocked on the locations of the current period
                            let mut watch: Vec<usize> = {
                                let list = &st.th[me].loads;
                                let i = list
                                    .iter()
                                    .rposition(|e| e.0 == loc)
                                    .expect("spin_check found it");
                                list[i..].iter().map(|e| e.0).collect()
                            };
                            watch.sort();
                            watch.dedup();
                            st.th[me].watch = watch;
                            st.th[me].status = Status::Blocked;
                            st.stats.blocks += 1;
                            st.seq += 1;
                            let s = st.seq;
                            st.blocked_events.push((me, s));
                            if st.cfg.trace {
                                let w = st.th[me].watch.clone();
                                st.note(me, format!("BLOCKED on {:?}", w));
                            }
                        }
                    }
                }
                // F8: decide whether this load returns an older value
                if st.th[me].status == Status::Runnable && st.cfg.stale_permille > 0 {
                    stale = stale_choice(st, me, loc, op.ordering);
                }
            }
            if st.cfg.call_granular {
                if st.th[me].status == Status::Runnable {
                    Handoff::Keep
                } else {
                    decide(st, me)
                }
            } else {
                maybe_freeze(st, me);
                decide(st, me)
            }
        };
        perform(h, me);
        stale
    }

    fn after(&self, op: &Op, old: usize, new: usize) {
        let Some(me) = tid() else { return };
        if unwinding_unscheduled() || SH.abort.load(O::Relaxed) {
            return;
        }
        let _p = alloc::pause();
        let mut g = lock();
        let Some(st) = g.as_mut() else { return };
        let addr = op.addr;
        let loc = st.loc(addr, || old);
        st.seq += 1;
        st.stats.atomic_ops += 1;
        let is_write = matches!(op.kind, OpKind::Store | OpKind::Rmw);
        let is_read = matches!(op.kind, OpKind::Load | OpKind::Rmw | OpKind::CasFail);
        if op.kind == OpKind::Rmw && op.width == 8 && new < old {
            st.stats.counter_wraps += 1;
        }
        // was the value read the latest one? (stale loads read an older version)
        let mut read_version = st.locs[loc].version;
        if op.kind == OpKind::Load && old != st.locs[loc].value {
            // stale load: find the version it read (latest version carrying that value)
            if let Some(w) = st.locs[loc].writes.iter().rev().find(|w| w.1 == old) {
                read_version = w.0;
            }
        }
        // --- clocks
        if is_read {
            // synchronises-with the release sequence headed by what it read; for a stale read we
            // conservatively join nothing (the release clock of an old write is not kept)
            let fresh = read_version == st.locs[loc].version;
            if fresh {
                let rel = st.locs[loc].release;
                if has_acquire(op.ordering) {
                    vc_join(&mut st.th[me].clock, &rel);
                } else {
                    vc_join(&mut st.th[me].pending_acq, &rel);
                }
            }
        }
        if is_write {
            let c = st.th[me].clock;
            let f = st.th[me].fence_rel;
            let l = &mut st.locs[loc];
            match op.kind {
                OpKind::Store => {
                    l.release = if has_release(op.ordering) { c } else { f };
                }
                _ => {
                    // RMW continues the release sequence
                    if has_release(op.ordering) {
                        vc_join(&mut l.release, &c);
                    } else {
                        vc_join(&mut l.release, &f);
                    }
                }
            }
            l.version += 1;
            l.value = new;
            let (ver, epoch) = (l.version, c[me]);
            l.writes.push((ver, new, me, epoch));
            if l.writes.len() > 16 {
                l.writes.remove(0);
            }
            st.th[me].loads.clear();
        } else {
            let ver = read_version;
            let lst = &mut st.th[me].loads;
            if lst.len() >= MAX_LOADS {
                lst.drain(0..MAX_LOADS / 2);
            }
            lst.push((loc, ver));
            st.th[me].nloads += 1;
        }
        {
            let seen = st.th[me].seen.entry(loc).or_insert(0);
            let v = if is_write {
                st.locs[loc].version
            } else {
                read_version
            };
            if v > *seen {
                *seen = v;
            }
        }
        st.th[me].clock[me] += 1;
        // --- conflict order + hashes
        {
            let l = &mut st.locs[loc];
            let kind_code = match op.kind {
                OpKind::Load => 0u64,
                OpKind::Store => 1,
                OpKind::Rmw => 2,
                OpKind::CasFail => 3,
            };
            // order of conflicting accesses only: a write, or a read following another thread's write
            if is_write || l.last_tid != me {
                l.order_hash = mix(&[l.order_hash, me as u64, kind_code]);
            }
            if l.last_tid != me && l.last_tid != NONE {
                st.cross_conflicts += 1;
            }
            if is_write {
                l.last_tid = me;
            }
            let mut h = st.hash;
            fnv(&mut h, me as u64);
            fnv(&mut h, loc as u64);
            fnv(&mut h, kind_code);
            fnv(&mut h, ord_code(op.ordering));
            fnv(&mut h, old as u64);
            fnv(&mut h, new as u64);
            st.hash = h;
        }
        // --- wake spinners
        if is_write {
            for t in 0..st.th.len() {
                if st.th[t].status == Status::Blocked && st.th[t].watch.contains(&loc) {
                    st.th[t].status = Status::Runnable;
                    st.th[t].probation = None;
                    st.stats.wakes += 1;
                }
            }
            // (not in call-granular mode: there the schedule must not depend on how many atomic
            // operations a call performs internally, C13 twin runs)
            if st.cfg.strategy == Strategy::Targeted && !st.cfg.call_granular && st.rng.chance(1, 2)
            {
                st.force_switch = true;
            }
        }
        let s = format!(
            "{:?} loc{} {:?} {}->{}",
            op.kind, loc, op.ordering, old, new
        );
        st.note(me, s);
    }

    fn fence(&self, ordering: Ordering) {
        let Some(me) = tid() else { return };
        if unwinding_unscheduled() || SH.abort.load(O::Relaxed) {
            return;
        }
        let _p = alloc::pause();
        let mut g = lock();
        let Some(st) = g.as_mut() else { return };
        st.seq += 1;
        if has_acquire(ordering) {
            let p = st.th[me].pending_acq;
            vc_join(&mut st.th[me].clock, &p);
        }
        if has_release(ordering) {
            st.th[me].fence_rel = st.th[me].clock;
        }
        st.th[me].clock[me] += 1;
        let mut h = st.hash;
        fnv(&mut h, 0xfe9ce);
        fnv(&mut h, me as u64);
        fnv(&mut h, ord_code(ordering));
        st.hash = h;
        st.note(me, format!("fence {:?}", ordering));
    }

    fn spin_hint(&self) {
        // a spin hint is not a scheduling point of its own: the loads around it are
    }
}

fn read_raw(addr: usize, width: u8) -> usize {
    // initial value of an atomic at first touch (only used for messages / F8 floor)
    unsafe {
        if width == 1 {
            (*(addr as *const std::sync::atomic::AtomicU8)).load(O::Relaxed) as usize
        } else {
            (*(addr as *const std::sync::atomic::AtomicUsize)).load(O::Relaxed)
        }
    }
}

/// F8: choose an older value that coherence and happens-before still allow, or None.
fn stale_choice(st: &mut State, me: usize, loc: usize, ordering: Ordering) -> Option<usize> {
    if matches!(ordering, Ordering::SeqCst) {
        return None;
    }
    let nl = st.th[me].nloads;
    let r = mix(&[st.cfg.stale_seed, me as u64, nl]);
    if (r % 1000) as u32 >= st.cfg.stale_permille {
        st.th[me].stale_run.insert(loc, 0);
        return None;
    }
    let run = *st.th[me].stale_run.get(&loc).unwrap_or(&0);
    if run >= 3 {
        st.th[me].stale_run.insert(loc, 0);
        return None;
    }
    let l = &st.locs[loc];
    let cur = l.version;
    // floor: what this thread has observed at this location, and every write that happens-before
    let mut floor = *st.th[me].seen.get(&loc).unwrap_or(&0);
    let clock = st.th[me].clock;
    for w in &l.writes {
        if w.2 != NONE && w.2 < MAXT && clock[w.2] >= w.3 && w.0 > floor {
            floor = w.0;
        }
        if w.2 == NONE && w.0 > floor {
            floor = w.0;
        }
    }
    let oldest_kept = l.writes.first().map(|w| w.0).unwrap_or(cur);
    let floor = floor.max(oldest_kept);
    if floor >= cur {
        return None;
    }
    let pick = floor + (r >> 20) % (cur - floor);
    let w = l.writes.iter().find(|w| w.0 == pick)?;
    let value = w.1;
    if value == l.value {
        return None;
    }
    st.th[me].stale_run.insert(loc, run + 1);
    st.stats.stale_loads += 1;
    Some(value)
}

// ---------------------------------------------------------------------------------------------
// run control (main thread)

static INSTALLED: AtomicBool = AtomicBool::new(false);

pub fn install() {
    if !INSTALLED.swap(true, O::SeqCst) {
        vh::install(Box::new(SimHook));
    }
}

pub fn begin_run(cfg: SimCfg) {
    install();
    assert!(cfg.nthreads + 2 <= MAXT);
    let _p = alloc::pause();
    SH.abort.store(false, O::SeqCst);
    SH.current.store(NONE, O::SeqCst);
    *lock() = Some(Box::new(State::new(cfg)));
}

/// Thread id of the sequential prefix ("pre") phase and of the terminal phase of a run.
pub fn pre_tid(nthreads: usize) -> usize {
    nthreads
}
pub fn term_tid(nthreads: usize) -> usize {
    nthreads + 1
}

/// Runs the virtual threads `tids` to completion under the scheduler (one phase of a run; phases
/// are separated by join/spawn edges). `body(tid)` runs on its own OS thread but only while it
/// holds the baton. Panics inside `body` are caught per thread.
pub fn run_phase<F>(tids: &[usize], body: F)
where
    F: Fn(usize) + Sync,
{
    if tids.is_empty() || aborted() {
        return;
    }
    let body = &body;
    // spawn edge: everything that finished so far happens-before the new threads
    {
        let _p = alloc::pause();
        let mut g = lock();
        let st = g.as_mut().expect("run active");
        let mut joined = [0u32; MAXT];
        for t in 0..st.th.len() {
            if st.th[t].status == Status::Finished {
                let c = st.th[t].clock;
                vc_join(&mut joined, &c);
            }
        }
        for &t in tids {
            vc_join(&mut st.th[t].clock, &joined);
            st.th[t].status = Status::Runnable;
        }
        SH.current.store(NONE, O::SeqCst);
    }
    std::thread::scope(|s| {
        for &t in tids {
            std::thread::Builder::new()
                .stack_size(256 * 1024)
                .spawn_scoped(s, move || {
                    TID.with(|c| c.set(t));
                    register_handle(t);
                    wait_for_baton(t);
                    let r = std::panic::catch_unwind(std::panic::AssertUnwindSafe(|| {
                        if SH.abort.load(O::Relaxed) {
                            return;
                        }
                        body(t)
                    }));
                    drop(r);
                    finish(t);
                    TID.with(|c| c.set(NONE));
                })
                .expect("spawn");
        }
        // start: the scheduler picks the first thread
        let first = {
            let _p = alloc::pause();
            let mut g = lock();
            let st = g.as_mut().expect("run active");
            st.pick(None)
        };
        match first {
            Some(t) if t != MAIN => pass_baton(t),
            _ => SH.abort.store(true, O::SeqCst),
        }
    });
}

fn finish(me: usize) {
    let _p = alloc::pause();
    if SH.abort.load(O::Relaxed) {
        let mut g = lock();
        if let Some(st) = g.as_mut() {
            st.th[me].status = Status::Finished;
        }
        return;
    }
    let next = {
        let mut g = lock();
        let st = g.as_mut().expect("run active");
        st.th[me].status = Status::Finished;
        st.seq += 1;
        st.stats.steps += 1;
        st.pick(Some(me))
    };
    match next {
        Some(n) => pass_baton(n),
        None => SH.abort.store(true, O::SeqCst),
    }
}

pub fn run_active() -> bool {
    SH.state.try_lock().map(|g| g.is_some()).unwrap_or(true)
}

pub fn aborted() -> bool {
    SH.abort.load(O::SeqCst)
}

pub fn end_run() -> SimOutcome {
    let _p = alloc::pause();
    let st = lock().take().expect("run active");
    let mut conflict = 0u64;
    for l in &st.locs {
        conflict = mix(&[conflict, l.order_hash]);
    }
    for (k, v) in &st.na {
        conflict = mix(&[conflict, *k as u64, v.order_hash]);
    }
    SimOutcome {
        verdict: st.verdict.clone(),
        stats: st.stats.clone(),
        deviations: st.deviations.clone(),
        event_hash: st.hash,
        conflict_hash: conflict,
        cross_thread_conflicts: st.cross_conflicts,
        races: st.races.clone(),
        blocked_events: st.blocked_events.clone(),
        trace: st.trace.clone(),
        aborted: SH.abort.load(O::SeqCst),
    }
}
