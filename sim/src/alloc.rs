//! Counting global allocator with a scoped ledger (C15).
//!
//! Blocks allocated while the calling thread is in "tracked" mode (source construction, calls
//! into the crate under test) are entered into a table; every deallocation removes its block from
//! the table whoever performs it. The simulator's own bookkeeping runs with tracking paused.

use std::alloc::{GlobalAlloc, Layout, System};
use std::cell::Cell;
use std::sync::atomic::{AtomicBool, AtomicI64, AtomicU64, AtomicUsize, Ordering};
use std::sync::Mutex;

pub struct Counting;

thread_local! {
    static TRACK: Cell<u32> = const { Cell::new(0) };
    static PAUSE: Cell<u32> = const { Cell::new(0) };
    static IN_ALLOC: Cell<bool> = const { Cell::new(false) };
}

fn enter() -> bool {
    IN_ALLOC
        .try_with(|c| {
            if c.get() {
                false
            } else {
                c.set(true);
                true
            }
        })
        .unwrap_or(false)
}

fn leave() {
    let _ = IN_ALLOC.try_with(|c| c.set(false));
}

static ENABLED: AtomicBool = AtomicBool::new(false);
static TABLE: Mutex<Vec<(usize, usize, u32)>> = Mutex::new(Vec::new());
static PHASE: AtomicU64 = AtomicU64::new(0);
pub static LIVE_TRACKED_BYTES: AtomicI64 = AtomicI64::new(0);
pub static TRACKED_ALLOCS: AtomicU64 = AtomicU64::new(0);

fn tracked_now() -> bool {
    ENABLED.load(Ordering::Relaxed)
        && TRACK.try_with(|t| t.get() > 0).unwrap_or(false)
        && PAUSE.try_with(|p| p.get() == 0).unwrap_or(false)
}

unsafe impl GlobalAlloc for Counting {
    unsafe fn alloc(&self, layout: Layout) -> *mut u8 {
        let p = System.alloc(layout);
        if !p.is_null() && tracked_now() {
            record(p as usize, layout.size());
        }
        p
    }

    unsafe fn dealloc(&self, ptr: *mut u8, layout: Layout) {
        if ENABLED.load(Ordering::Relaxed) {
            forget(ptr as usize, Some(layout.size()));
        }
        System.dealloc(ptr, layout)
    }

    unsafe fn realloc(&self, ptr: *mut u8, layout: Layout, new_size: usize) -> *mut u8 {
        let was_tracked = if ENABLED.load(Ordering::Relaxed) {
            forget(ptr as usize, Some(layout.size()))
        } else {
            false
        };
        let p = System.realloc(ptr, layout, new_size);
        if !p.is_null() && (was_tracked || tracked_now()) {
            record(p as usize, new_size);
        } else if p.is_null() && was_tracked {
            record(ptr as usize, layout.size());
        }
        p
    }
}

fn record(p: usize, size: usize) {
    if !enter() {
        return;
    }
    {
        let mut t = TABLE.lock().unwrap_or_else(|e| e.into_inner());
        t.push((p, size, PHASE.load(Ordering::Relaxed) as u32));
    }
    LIVE_TRACKED_BYTES.fetch_add(size as i64, Ordering::Relaxed);
    TRACKED_ALLOCS.fetch_add(1, Ordering::Relaxed);
    leave();
}

/// (size the block was allocated with, size it was released with) of the first tracked block
/// that was released with a layout other than its own; (0, 0) = none in this run. Releasing a
/// block with another size is undefined behaviour (`GlobalAlloc::dealloc`: "layout must be the
/// same layout that was used to allocate that block"), e.g. `Vec::from_raw_parts` with a wrong
/// capacity.
static MISMATCH_ALLOC: AtomicUsize = AtomicUsize::new(0);
static MISMATCH_FREE: AtomicUsize = AtomicUsize::new(0);
static MISMATCHES: AtomicUsize = AtomicUsize::new(0);

pub fn layout_mismatch() -> (usize, usize, usize) {
    (
        MISMATCHES.load(Ordering::Relaxed),
        MISMATCH_ALLOC.load(Ordering::Relaxed),
        MISMATCH_FREE.load(Ordering::Relaxed),
    )
}

fn forget(p: usize, released_with: Option<usize>) -> bool {
    if !enter() {
        return false;
    }
    let mut found = false;
    {
        let mut t = TABLE.lock().unwrap_or_else(|e| e.into_inner());
        if let Some(i) = t.iter().rposition(|e| e.0 == p) {
            let (_, size, _) = t.swap_remove(i);
            LIVE_TRACKED_BYTES.fetch_sub(size as i64, Ordering::Relaxed);
            found = true;
            if let Some(r) = released_with {
                if r != size && MISMATCHES.fetch_add(1, Ordering::Relaxed) == 0 {
                    MISMATCH_ALLOC.store(size, Ordering::Relaxed);
                    MISMATCH_FREE.store(r, Ordering::Relaxed);
                }
            }
        }
    }
    leave();
    found
}

/// RAII: allocations on this thread are not tracked while the guard lives.
pub struct Pause;

pub fn pause() -> Pause {
    let _ = PAUSE.try_with(|c| c.set(c.get() + 1));
    Pause
}

impl Drop for Pause {
    fn drop(&mut self) {
        let _ = PAUSE.try_with(|c| c.set(c.get().saturating_sub(1)));
    }
}

/// RAII: allocations on this thread are tracked while the guard lives (unless paused).
pub struct Track;

pub fn track() -> Track {
    let _ = TRACK.try_with(|c| c.set(c.get() + 1));
    Track
}

impl Drop for Track {
    fn drop(&mut self) {
        let _ = TRACK.try_with(|c| c.set(c.get().saturating_sub(1)));
    }
}

pub fn enable(on: bool) {
    ENABLED.store(on, Ordering::SeqCst);
}

pub fn set_phase(p: u64) {
    PHASE.store(p, Ordering::Relaxed);
}

/// Clears the table (start of a run).
pub fn reset() {
    let _p = pause();
    let e = enter();
    {
        let mut t = TABLE.lock().unwrap_or_else(|e| e.into_inner());
        t.clear();
    }
    LIVE_TRACKED_BYTES.store(0, Ordering::Relaxed);
    TRACKED_ALLOCS.store(0, Ordering::Relaxed);
    MISMATCHES.store(0, Ordering::Relaxed);
    MISMATCH_ALLOC.store(0, Ordering::Relaxed);
    MISMATCH_FREE.store(0, Ordering::Relaxed);
    if e {
        leave();
    }
}

/// (number of live tracked blocks, their total size, [(size, phase)] of up to 8 of them)
pub fn live() -> (usize, usize, Vec<(usize, u32)>) {
    let _p = pause();
    let e = enter();
    let r = {
        let t = TABLE.lock().unwrap_or_else(|e| e.into_inner());
        let bytes = t.iter().map(|e| e.1).sum();
        let sample = t.iter().take(8).map(|e| (e.1, e.2)).collect();
        (t.len(), bytes, sample)
    };
    if e {
        leave();
    }
    r
}
