//! Linearizability of a recorded history against the sequential cursor model (DESIGN.md 5.4).
//! Wing–Gong style search with memoisation on (set of linearized calls, model state).

use std::collections::HashSet;

#[derive(Clone, Debug, PartialEq, Eq)]
pub enum Act {
    /// pull of up to n positions; result: Some((begin, count)) or None for "end"
    Pull(usize, Option<(usize, usize)>),
    /// try_get_len / has_more: None = unknown, Some(x)
    Len(Option<usize>),
    Skip,
}

#[derive(Clone, Debug)]
pub struct LinOp {
    pub invoke: u64,
    pub ret: u64,
    pub tid: usize,
    pub act: Act,
    /// index of the call in the run record (for messages)
    pub call: usize,
}

#[derive(Clone, Copy, Debug)]
pub struct Model {
    pub len: usize,
    /// try_get_len knows the size (all kinds but wrapped iterators without an exact hint)
    pub sized: bool,
}

#[derive(Clone, Copy, PartialEq, Eq, Hash, Debug)]
struct St {
    c: usize,
    skipped: bool,
}

fn apply(m: &Model, s: St, a: &Act) -> Option<St> {
    match a {
        Act::Pull(n, Some((b, cnt))) => {
            if s.skipped || s.c >= m.len {
                return None;
            }
            let want = (*n).min(m.len - s.c);
            if *b == s.c && *cnt == want && want > 0 {
                Some(St {
                    c: s.c + want,
                    skipped: false,
                })
            } else {
                None
            }
        }
        Act::Pull(_, None) => {
            if s.skipped || s.c >= m.len {
                Some(s)
            } else {
                None
            }
        }
        Act::Len(Some(x)) => {
            let rem = if s.skipped { 0 } else { m.len - s.c.min(m.len) };
            if m.sized {
                if *x == rem {
                    Some(s)
                } else {
                    None
                }
            } else if *x == 0 && rem == 0 {
                Some(s)
            } else {
                None
            }
        }
        Act::Len(None) => {
            if m.sized {
                None
            } else {
                Some(s)
            }
        }
        Act::Skip => Some(St {
            c: s.c,
            skipped: true,
        }),
    }
}

pub struct LinResult {
    pub ok: bool,
    /// largest number of calls that could be linearized, and the calls that were candidates there
    pub best_depth: usize,
    pub stuck_on: Vec<usize>,
    pub states_visited: usize,
}

pub fn check(m: &Model, ops: &[LinOp]) -> LinResult {
    assert!(ops.len() <= 64);
    let n = ops.len();
    let full: u64 = if n == 64 { u64::MAX } else { (1u64 << n) - 1 };
    let mut failed: HashSet<(u64, St)> = HashSet::new();
    let mut best_depth = 0usize;
    let mut stuck_on = Vec::new();
    let mut visited = 0usize;

    // iterative DFS
    struct Frame {
        mask: u64,
        st: St,
        cands: Vec<usize>,
        next: usize,
    }
    fn candidates(ops: &[LinOp], mask: u64) -> Vec<usize> {
        let mut min_ret = u64::MAX;
        for (i, o) in ops.iter().enumerate() {
            if mask & (1 << i) == 0 && o.ret < min_ret {
                min_ret = o.ret;
            }
        }
        let mut v: Vec<usize> = Vec::new();
        for (i, o) in ops.iter().enumerate() {
            if mask & (1 << i) == 0 && o.invoke < min_ret {
                v.push(i);
            }
        }
        v
    }
    let st0 = St {
        c: 0,
        skipped: false,
    };
    let mut stack = vec![Frame {
        mask: 0,
        st: st0,
        cands: candidates(ops, 0),
        next: 0,
    }];
    while let Some(f) = stack.last_mut() {
        if f.mask == full {
            return LinResult {
                ok: true,
                best_depth: n,
                stuck_on: vec![],
                states_visited: visited,
            };
        }
        if f.next >= f.cands.len() {
            let depth = f.mask.count_ones() as usize;
            if depth >= best_depth {
                best_depth = depth;
                stuck_on = f.cands.iter().map(|&i| ops[i].call).collect();
            }
            failed.insert((f.mask, f.st));
            stack.pop();
            continue;
        }
        let i = f.cands[f.next];
        f.next += 1;
        if let Some(st2) = apply(m, f.st, &ops[i].act) {
            let mask2 = f.mask | (1 << i);
            if failed.contains(&(mask2, st2)) {
                continue;
            }
            visited += 1;
            if visited > 2_000_000 {
                // give up: treated as "not decided", never as a violation
                return LinResult {
                    ok: true,
                    best_depth,
                    stuck_on: vec![],
                    states_visited: visited,
                };
            }
            let c = candidates(ops, mask2);
            stack.push(Frame {
                mask: mask2,
                st: st2,
                cands: c,
                next: 0,
            });
        }
    }
    LinResult {
        ok: false,
        best_depth,
        stuck_on,
        states_visited: visited,
    }
}

#[cfg(test)]
mod tests {
    use super::*;

    fn op(invoke: u64, ret: u64, tid: usize, act: Act) -> LinOp {
        LinOp {
            invoke,
            ret,
            tid,
            act,
            call: 0,
        }
    }

    #[test]
    fn sequential_ok() {
        let m = Model { len: 3, sized: true };
        let ops = vec![
            op(1, 2, 0, Act::Pull(1, Some((0, 1)))),
            op(3, 4, 0, Act::Len(Some(2))),
            op(5, 6, 0, Act::Pull(5, Some((1, 2)))),
            op(7, 8, 0, Act::Pull(1, None)),
        ];
        assert!(check(&m, &ops).ok);
    }

    #[test]
    fn real_time_order_violation() {
        let m = Model { len: 3, sized: true };
        // A returned position 1 before B (which got 0) was even invoked
        let ops = vec![
            op(1, 2, 0, Act::Pull(1, Some((1, 1)))),
            op(3, 4, 1, Act::Pull(1, Some((0, 1)))),
        ];
        assert!(!check(&m, &ops).ok);
    }

    #[test]
    fn concurrent_reorder_ok() {
        let m = Model { len: 3, sized: true };
        let ops = vec![
            op(1, 10, 0, Act::Pull(1, Some((1, 1)))),
            op(2, 4, 1, Act::Pull(1, Some((0, 1)))),
        ];
        assert!(check(&m, &ops).ok);
    }

    #[test]
    fn pull_after_skip_must_end() {
        let m = Model { len: 3, sized: true };
        let ops = vec![
            op(1, 2, 0, Act::Skip),
            op(3, 4, 1, Act::Pull(1, Some((0, 1)))),
        ];
        assert!(!check(&m, &ops).ok);
        let ops = vec![
            op(1, 5, 0, Act::Skip),
            op(3, 4, 1, Act::Pull(1, Some((0, 1)))),
        ];
        assert!(check(&m, &ops).ok);
    }
}
