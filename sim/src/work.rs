//! Workload description (serialisable: it is the replay file's body), and its execution against
//! the real crate through the public API.

use crate::alloc;
use crate::elems::{self, Elem, Hint, ItemObs, NoClone, Obs, Plain, Probe, Stamp, Token};
use crate::sim::{self, SimAbort, SimCfg, SimOutcome};
use orx_concurrent_iter::*;
use serde::{Deserialize, Serialize};
use std::panic::{catch_unwind, resume_unwind, AssertUnwindSafe};
use std::sync::Mutex;

#[derive(Clone, Copy, Debug, PartialEq, Eq, Serialize, Deserialize, PartialOrd, Ord)]
pub enum Kind {
    /// `(&[T]).into_con_iter()`
    Slice,
    /// `(&[T]).con_iter()`
    SliceRef,
    /// `Vec<T>::con_iter()`
    VecRef,
    /// `[T; N]::con_iter()`
    ArrayRef,
    /// `Vec<T>::into_con_iter()` (consuming)
    Vec,
    /// `[T; N]::into_con_iter()` (consuming)
    Array,
    /// `Range<usize>::into_con_iter()`
    Range,
    /// `Range<usize>::con_iter()`
    RangeRef,
    /// `ConIterOfIter` over an owning probe iterator
    IterOwned,
    /// `ConIterOfIter` over a probe iterator of references
    IterRef,
    ClonedSlice,
    ClonedIter,
    CopiedSlice,
    CopiedIter,
    /// `Vec<Plain>::con_iter()`: the underlying iterator of `CopiedSlice`
    PlainSlice,
    /// `ConIterOfIter` over `slice::Iter<Plain>`: the underlying iterator of `CopiedIter`
    PlainIter,
    /// `Vec<Stamp>::con_iter().cloned()`: element type that is Clone, not Copy, without destructor
    ClonedStampSlice,
    /// `Vec<Stamp>::con_iter()`: its underlying iterator
    StampSlice,
    /// `Vec<Token>::into_con_iter()`: zero-sized elements with a destructor (consuming)
    VecZst,
    /// `[Token; N]::into_con_iter()` (consuming)
    ArrayZst,
    /// `Vec<NoClone>::con_iter()`: elements that are not `Clone`; the iterator is cloned through
    /// a shared reference with plain method-call syntax (C19)
    SliceNoClone,
    /// a concurrent iterator built over `base.values()` of ANOTHER concurrent iterator (over a
    /// slice) that is pulled directly at the same time (`Op::BasePull`): C11 only, not in `ALL`
    NestedValues,
    /// `ConIterOfIter` over a probe iterator that never ends by itself (a search that is stopped
    /// with `skip_to_end`): C09 only, not in `ALL`; no operation that runs "until the end"
    EndlessIter,
}

impl Kind {
    pub const ALL: [Kind; 21] = [
        Kind::Slice,
        Kind::SliceRef,
        Kind::VecRef,
        Kind::ArrayRef,
        Kind::Vec,
        Kind::Array,
        Kind::Range,
        Kind::RangeRef,
        Kind::IterOwned,
        Kind::IterRef,
        Kind::ClonedSlice,
        Kind::ClonedIter,
        Kind::CopiedSlice,
        Kind::CopiedIter,
        Kind::PlainSlice,
        Kind::PlainIter,
        Kind::ClonedStampSlice,
        Kind::StampSlice,
        Kind::VecZst,
        Kind::ArrayZst,
        Kind::SliceNoClone,
    ];
    pub fn is_iter(self) -> bool {
        matches!(
            self,
            Kind::IterOwned
                | Kind::IterRef
                | Kind::ClonedIter
                | Kind::CopiedIter
                | Kind::PlainIter
        )
    }
    pub fn known_size(self) -> bool {
        !self.is_iter() && !self.is_nested() && !self.is_endless()
    }
    pub fn is_endless(self) -> bool {
        self == Kind::EndlessIter
    }
    pub fn is_nested(self) -> bool {
        self == Kind::NestedValues
    }
    pub fn consuming(self) -> bool {
        matches!(
            self,
            Kind::Vec | Kind::Array | Kind::IterOwned | Kind::VecZst | Kind::ArrayZst
        )
    }
    /// zero-sized elements without identity: positions come from the reported indices only
    pub fn is_zst(self) -> bool {
        matches!(self, Kind::VecZst | Kind::ArrayZst)
    }
    pub fn is_array(self) -> bool {
        matches!(self, Kind::Array | Kind::ArrayRef | Kind::ArrayZst)
    }
    pub fn is_range(self) -> bool {
        matches!(self, Kind::Range | Kind::RangeRef)
    }
    /// items are references into the source
    pub fn yields_refs(self) -> bool {
        matches!(
            self,
            Kind::Slice
                | Kind::SliceRef
                | Kind::VecRef
                | Kind::ArrayRef
                | Kind::IterRef
                | Kind::PlainSlice
                | Kind::PlainIter
                | Kind::StampSlice
                | Kind::SliceNoClone
                | Kind::NestedValues
        )
    }
    pub fn is_adaptor(self) -> bool {
        matches!(
            self,
            Kind::ClonedSlice
                | Kind::ClonedIter
                | Kind::CopiedSlice
                | Kind::CopiedIter
                | Kind::ClonedStampSlice
        )
    }
    /// the reference-yielding iterator an adaptor kind wraps (C13 twin)
    pub fn underlying(self) -> Option<Kind> {
        match self {
            Kind::ClonedSlice => Some(Kind::VecRef),
            Kind::ClonedIter => Some(Kind::IterRef),
            Kind::CopiedSlice => Some(Kind::PlainSlice),
            Kind::CopiedIter => Some(Kind::PlainIter),
            Kind::ClonedStampSlice => Some(Kind::StampSlice),
            _ => None,
        }
    }
    pub fn is_cloned(self) -> bool {
        matches!(
            self,
            Kind::ClonedSlice | Kind::ClonedIter | Kind::ClonedStampSlice
        )
    }
    pub fn array_lens() -> &'static [usize] {
        &[0, 1, 2, 3, 4, 5, 6, 8, 12, 16, 24, 33, 64]
    }
}

#[derive(Clone, Copy, Debug, PartialEq, Eq, Serialize, Deserialize)]
pub enum Method {
    Next,
    NextIdVal,
    Chunk(usize),
    Buf(usize),
    Values,
    IdsValues,
}

#[derive(Clone, Copy, Debug, PartialEq, Eq, Serialize, Deserialize)]
pub enum Op {
    Next,
    NextIdVal,
    /// one-shot chunk of size n; consume `k` elements (usize::MAX = all) then drop the rest
    Chunk(usize, usize),
    /// (re)create this thread's buffered iterator with chunk size n
    BufNew(usize),
    /// pull from this thread's buffered iterator; consume k elements then drop the chunk
    BufNext(usize),
    BufDrop,
    /// `for x in iter.values().take(m)`
    Values(usize),
    IdsValues(usize),
    ForEach(usize),
    EnumForEach(usize),
    Fold(usize),
    Len,
    HasMore,
    Skip,
    /// abandon the rest of this thread's list
    Stop,
    /// repeat the method until it reports the end, then `extra` more times
    Drain(Method, u32),
    /// C19: the following operations of this thread go to a clone of the original iterator, taken now
    UseClone,
    /// C19: the following operations go to a fresh iterator over the same collection
    UseFresh,
    /// C19: back to the original iterator (the thread's private iterator is dropped)
    UseOriginal,
    /// `Kind::NestedValues`: one element is pulled directly from the base iterator
    BasePull,
    /// the rest of this thread's list is executed from a destructor while the thread unwinds
    /// from a panic of the caller's own code (`std::thread::panicking()` is true throughout)
    InUnwind,
    /// `iter.ids_and_values().nth(k)`, k >= 1: k elements are consumed unseen, the (k+1)-th is
    /// returned with its index (C02 only: the other oracles cannot account for the unseen ones)
    IdsValuesNth(usize),
}

#[derive(Clone, Copy, Debug, PartialEq, Eq, Serialize, Deserialize)]
pub enum Terminal {
    Drop,
    /// into_seq_iter, take m (usize::MAX = all), drop the rest
    IntoSeq(usize),
}

#[derive(Clone, Copy, Debug, PartialEq, Eq, Serialize, Deserialize)]
pub enum PanicSite {
    WrappedNext,
    Clone,
    Closure,
    /// not inside the crate: the CALLER panics while it holds a partly consumed chunk (after
    /// having taken its k-th chunk element, counted over the whole run), so that the chunk is
    /// dropped by the unwinding (C08: "an unconsumed chunk is dropped")
    Consumer,
    /// the destructor of the element with id k panics (once, and not while the thread is
    /// unwinding already), wherever that element happens to be destroyed
    ElemDrop,
}

#[derive(Clone, Debug, Serialize, Deserialize)]
pub struct RunCfg {
    pub prop: String,
    pub run_seed: u64,
    pub kind: Kind,
    pub len: usize,
    pub start: usize,
    /// explicit end of the range for range kinds (C16: extreme, empty and inverted ranges);
    /// None = start + len
    #[serde(default)]
    pub range_end: Option<usize>,
    pub hint: Hint,
    pub heap_bytes: usize,
    /// operations executed by the main thread before the threads start (sequential prefix)
    pub pre: Vec<Op>,
    pub threads: Vec<Vec<Op>>,
    pub terminal: Terminal,
    pub panic: Option<(PanicSite, u32)>,
    /// 0: chunks are consumed with `next()`; s > 0: consumption of a chunk starts with `nth(s)`
    /// (skipping s elements, which the chunk iterator must dispose of itself)
    #[serde(default)]
    pub consume_nth: usize,
    /// how many elements of a chunk are taken with `next()` before that `nth(s)` call
    #[serde(default)]
    pub nth_at: usize,
    /// wrapped-iterator kinds only: the probe is NOT fused; after its first None (after `len`
    /// elements) it would yield this many further elements if asked again
    #[serde(default)]
    pub tail: usize,
    /// wrapped-iterator kinds with an exact hint only: the size hint under-reports by this many
    /// elements (a source that is refilled after the concurrent iterator was created, or an
    /// adaptor with a sloppy size_hint). The iterator yields all `len` elements without a gap;
    /// what is relaxed in the oracles for such a source is listed in `RunCfg::lying_hint`.
    #[serde(default)]
    pub hint_short: usize,
    /// the opposite lie: the exact size hint over-reports by this many elements (the source ends
    /// earlier than announced, e.g. a queue that was drained by somebody else)
    #[serde(default)]
    pub hint_long: usize,
    /// how partly consumed chunks are finished: 0 dropped, 1 `count()`, 2 `last()`
    #[serde(default)]
    pub finish: u8,
    pub sim: SimCfg,
}

#[derive(Clone, Copy, Debug, PartialEq, Eq, Serialize, Deserialize)]
pub enum CallKind {
    Next,
    NextIdVal,
    Chunk,
    BufNew,
    BufNext,
    BufDrop,
    ValuesNext,
    IdsValuesNext,
    ForEach,
    EnumForEach,
    Fold,
    Len,
    HasMore,
    Skip,
    IntoSeq,
    DropIter,
    CloneIter,
    FreshIter,
    /// `Kind::NestedValues`: a pull on the base iterator, behind the outer iterator's back
    BasePull,
}

impl CallKind {
    pub fn is_single_pull(self) -> bool {
        matches!(
            self,
            CallKind::Next | CallKind::NextIdVal | CallKind::ValuesNext | CallKind::IdsValuesNext
        )
    }
    pub fn is_pull(self) -> bool {
        self.is_single_pull() || matches!(self, CallKind::Chunk | CallKind::BufNext)
    }
    pub fn is_composite(self) -> bool {
        matches!(
            self,
            CallKind::ForEach | CallKind::EnumForEach | CallKind::Fold
        )
    }
}

#[derive(Clone, Debug, PartialEq, Eq, Serialize, Deserialize)]
pub enum HasMoreObs {
    Yes(usize),
    Maybe,
    No,
}

#[derive(Clone, Debug, PartialEq, Eq, Serialize, Deserialize)]
pub enum Res {
    Item {
        idx: Option<usize>,
        obs: ItemObs,
    },
    Chunk {
        begin: usize,
        /// `values.len()` right after the pull
        announced: usize,
        /// observations of the consumed elements
        items: Vec<ItemObs>,
        /// `len()` reported before each consumed element
        lens: Vec<usize>,
        /// the chunk was iterated until it returned None
        exhausted: bool,
        /// announced length was impossible; the chunk was forgotten, not iterated
        impossible: bool,
        /// number of leading elements the caller skipped with one `nth(skipped)` call before the
        /// first observed element (`items[0]` is then the element at offset `skipped`)
        #[serde(default)]
        skipped: usize,
        /// how many elements had been taken with `next()` before that `nth` call (0: the `nth`
        /// call came first)
        #[serde(default)]
        skip_at: usize,
        /// how the caller got rid of the rest of the chunk: 0 dropped it, 1 `count()`, 2 `last()`
        #[serde(default)]
        finish: u8,
        /// result of `count()` on the rest
        #[serde(default)]
        finish_count: Option<usize>,
        /// result of `last()` on the rest
        #[serde(default)]
        finish_last: Option<ItemObs>,
        /// `size_hint()` disagreed with `len()` at some point: (len, lower, upper)
        #[serde(default)]
        hint_bad: Option<(usize, usize, Option<usize>)>,
    },
    End,
    Len(Option<usize>),
    HasMore(HasMoreObs),
    Unit,
    Multi {
        items: Vec<(Option<usize>, ItemObs)>,
        acc: u64,
    },
    Panicked {
        injected: bool,
        msg: String,
    },
}

#[derive(Clone, Debug, Serialize, Deserialize)]
pub struct Call {
    /// which iterator the call was made on: 0 = the original, others are clones / fresh iterators
    #[serde(default)]
    pub iter: u32,
    pub tid: usize,
    pub kind: CallKind,
    pub arg: usize,
    pub invoke: u64,
    pub ret: u64,
    pub res: Res,
}

#[derive(Clone, Debug, Default)]
pub struct RunRecord {
    pub calls: Vec<Call>,
    /// items collected from into_seq_iter (None if the terminal action was Drop)
    pub seq_items: Option<Vec<ItemObs>>,
    pub terminal_panic: Option<String>,
    pub ledger: elems::Ledger,
    pub probe: elems::ProbeState,
    pub sim: SimOutcome,
    /// addresses of the source elements for reference-yielding kinds
    pub base_addr: usize,
    pub elem_size: usize,
    pub source_intact: bool,
    /// source elements dropped while the source collection was still alive (ref kinds)
    pub source_drops_before_end: u32,
    /// tracked heap blocks still live after everything was dropped: (blocks, bytes, sample)
    pub leaked: (usize, usize, Vec<(usize, u32)>),
    /// tracked heap blocks released with a size other than the one they were allocated with:
    /// (how many, allocated size, released size of the first)
    pub layout_mismatch: (usize, usize, usize),
    pub unexpected_panics: Vec<String>,
}

// ---------------------------------------------------------------------------------------------
// panic bookkeeping

static LAST_PANIC: Mutex<Vec<String>> = Mutex::new(Vec::new());

pub fn install_panic_hook() {
    std::panic::set_hook(Box::new(|info| {
        let _p = alloc::pause();
        let msg = if let Some(s) = info.payload().downcast_ref::<&str>() {
            s.to_string()
        } else if let Some(s) = info.payload().downcast_ref::<String>() {
            s.clone()
        } else {
            "<non-string payload>".to_string()
        };
        let loc = info
            .location()
            .map(|l| format!("{}:{}", l.file(), l.line()))
            .unwrap_or_default();
        if sim::tid().is_none() && !sim::run_active() {
            // a panic of the harness itself (not inside a simulated run): never swallow it
            eprintln!("harness panic: {msg} @ {loc}");
        }
        LAST_PANIC
            .lock()
            .unwrap_or_else(|e| e.into_inner())
            .push(format!("{msg} @ {loc}"));
    }));
}

fn take_panics() -> Vec<String> {
    let _p = alloc::pause();
    std::mem::take(&mut *LAST_PANIC.lock().unwrap_or_else(|e| e.into_inner()))
}

// ---------------------------------------------------------------------------------------------
// execution

thread_local! {
    static CUR_ITER: std::cell::Cell<u32> = const { std::cell::Cell::new(0) };
}

pub struct Ctx {
    pub calls: Mutex<Vec<Call>>,
    pub closure_calls: std::sync::atomic::AtomicU32,
    pub closure_panic_at: Option<u32>,
    pub consumer_elems: std::sync::atomic::AtomicU32,
    pub consumer_panic_at: Option<u32>,
    pub kind: Kind,
    pub len: usize,
    pub consume_nth: usize,
    pub nth_at: usize,
    pub zero_is_noop: bool,
    pub finish: u8,
    pub seed: u64,
}

impl Ctx {
    fn record(&self, c: Call) {
        let _p = alloc::pause();
        let mut h = vec![c.tid as u64, c.kind as u64, c.arg as u64];
        hash_res(&c.res, &mut h);
        sim::hash_event(&h);
        self.calls
            .lock()
            .unwrap_or_else(|e| e.into_inner())
            .push(c);
    }
}

/// Offset inside the chunk of the j-th element the caller observed, when `skipped` elements
/// were passed over by one `nth` call made after `skip_at` elements had been taken.
pub fn chunk_off(skipped: usize, skip_at: usize, j: usize) -> usize {
    if j >= skip_at {
        j + skipped
    } else {
        j
    }
}

/// Elements of the chunk consumed before the call that produced the j-th observed element.
pub fn chunk_consumed_before(skipped: usize, skip_at: usize, j: usize) -> usize {
    if j > skip_at {
        j + skipped
    } else {
        j
    }
}

fn hash_res(r: &Res, h: &mut Vec<u64>) {
    match r {
        Res::Item { idx, obs } => {
            h.push(1);
            h.push(idx.map(|x| x as u64).unwrap_or(u64::MAX));
            h.push(obs.raw);
        }
        Res::Chunk {
            begin,
            announced,
            items,
            skipped,
            skip_at,
            ..
        } => {
            h.push(2);
            h.push(*begin as u64);
            h.push(*announced as u64);
            h.push(*skipped as u64);
            if *skip_at > 0 {
                h.push(0x5a00 + *skip_at as u64);
            }
            for i in items {
                h.push(i.raw);
            }
        }
        Res::End => h.push(3),
        Res::Len(l) => {
            h.push(4);
            h.push(l.map(|x| x as u64).unwrap_or(u64::MAX));
        }
        Res::HasMore(m) => {
            h.push(5);
            h.push(match m {
                HasMoreObs::Yes(n) => *n as u64,
                HasMoreObs::Maybe => u64::MAX,
                HasMoreObs::No => 0,
            });
        }
        Res::Unit => h.push(6),
        Res::Multi { items, acc } => {
            h.push(7);
            for (i, o) in items {
                h.push(i.map(|x| x as u64).unwrap_or(u64::MAX));
                h.push(o.raw);
            }
            h.push(*acc);
        }
        Res::Panicked { injected, .. } => {
            h.push(8);
            h.push(*injected as u64);
        }
    }
}

/// Runs one API call under catch_unwind, stamped with invoke/return sequence numbers.
fn call<F: FnOnce() -> Res>(ctx: &Ctx, tid: usize, kind: CallKind, arg: usize, f: F) -> Res {
    let invoke = sim::call_begin();
    let r = {
        let _t = alloc::track();
        catch_unwind(AssertUnwindSafe(f))
    };
    let res = match r {
        Ok(res) => res,
        Err(payload) => {
            if payload.is::<SimAbort>() {
                resume_unwind(payload);
            }
            if let Some(inj) = payload.downcast_ref::<elems::Injected>() {
                Res::Panicked {
                    injected: true,
                    msg: inj.0.to_string(),
                }
            } else {
                let msgs = take_panics();
                Res::Panicked {
                    injected: false,
                    msg: msgs.last().cloned().unwrap_or_default(),
                }
            }
        }
    };
    let mut res = res;
    if ctx.kind.is_zst() {
        patch_zst(&mut res, ctx.seed);
    }
    let ret = sim::call_end();
    ctx.record(Call {
        iter: CUR_ITER.with(|c| c.get()),
        tid,
        kind,
        arg,
        invoke,
        ret,
        res: res.clone(),
    });
    res
}

/// Zero-sized elements carry no identity: label them with the index the crate reported.
fn patch_zst(res: &mut Res, seed: u64) {
    let label = |o: &mut ItemObs, i: usize| {
        o.raw = i as u64;
        o.payload = elems::payload_of(seed, i as u64);
    };
    match res {
        Res::Item { idx: Some(i), obs } => label(obs, *i),
        Res::Chunk {
            begin,
            announced,
            items,
            skipped,
            skip_at,
            finish_last,
            ..
        } => {
            for (j, o) in items.iter_mut().enumerate() {
                label(o, begin.wrapping_add(chunk_off(*skipped, *skip_at, j)));
            }
            if let Some(o) = finish_last {
                label(o, begin.wrapping_add(announced.saturating_sub(1)));
            }
        }
        Res::Multi { items, .. } => {
            for (i, o) in items.iter_mut() {
                if let Some(i) = i {
                    label(o, *i);
                }
            }
        }
        _ => {}
    }
}

fn consume_chunk<T: Obs, I: ExactSizeIterator<Item = T>>(
    ctx: &Ctx,
    begin: usize,
    requested: usize,
    mut values: I,
    k: usize,
) -> Res {
    let announced = values.len();
    // an impossible announcement: do not iterate garbage
    let limit = requested.max(1).min(ctx.len.max(1).saturating_add(64));
    if announced > limit {
        std::mem::forget(values);
        return Res::Chunk {
            begin,
            announced,
            items: vec![],
            lens: vec![],
            exhausted: false,
            impossible: true,
            skipped: 0,
            skip_at: 0,
            finish: 0,
            finish_count: None,
            finish_last: None,
            hint_bad: None,
        };
    }
    let mut items = Vec::new();
    let mut lens = Vec::new();
    let mut exhausted = false;
    let mut guard = 0usize;
    // the harness never consumes more than a few thousand elements of one chunk (C16: a chunk
    // of a range may legitimately announce 2^63 elements)
    let k = k.min(4096);
    // style "nth": the first element taken is values.nth(s); the s skipped elements are never
    // seen by the caller and must be disposed of by the chunk iterator
    let mut skipped = 0usize;
    let mut skip_at = 0usize;
    let mut nth_done = false;
    let mut hint_bad = None;
    loop {
        if items.len() >= k {
            break;
        }
        let l = values.len();
        let sh = values.size_hint();
        if sh != (l, Some(l)) && hint_bad.is_none() {
            hint_bad = Some((l, sh.0, sh.1));
        }
        let use_nth = !nth_done
            && items.len() == ctx.nth_at
            && ctx.consume_nth > 0
            && announced > ctx.nth_at + ctx.consume_nth
            && k > ctx.nth_at;
        let nxt = if use_nth {
            nth_done = true;
            skipped = ctx.consume_nth;
            skip_at = ctx.nth_at;
            values.nth(ctx.consume_nth)
        } else {
            values.next()
        };
        match nxt {
            Some(x) => {
                let o = x.obs();
                {
                    let _p = alloc::pause();
                    lens.push(l);
                    items.push(o);
                }
                if ctx.consumer_panic_at.is_some() {
                    let c = ctx
                        .consumer_elems
                        .fetch_add(1, std::sync::atomic::Ordering::Relaxed);
                    if ctx.consumer_panic_at == Some(c) {
                        // `values` (the rest of the chunk) is dropped by the unwinding
                        elems::inject_panic("consumer");
                    }
                }
            }
            None => {
                exhausted = true;
                break;
            }
        }
        guard += 1;
        if guard > limit.saturating_add(4) {
            break;
        }
    }
    // the rest of the chunk: dropped, counted or reduced to its last element
    let mut finish = 0u8;
    let mut finish_count = None;
    let mut finish_last = None;
    if !exhausted && announced <= 4096 {
        match ctx.finish {
            1 => {
                finish = 1;
                finish_count = Some(values.count());
            }
            2 => {
                finish = 2;
                finish_last = values.last().map(|x| x.obs());
            }
            _ => drop(values),
        }
    }
    Res::Chunk {
        begin,
        announced,
        items,
        lens,
        exhausted,
        impossible: false,
        skipped,
        skip_at,
        finish,
        finish_count,
        finish_last,
        hint_bad,
    }
}

fn has_more_obs(h: HasMore) -> HasMoreObs {
    match h {
        HasMore::Yes(n) => HasMoreObs::Yes(n),
        HasMore::Maybe => HasMoreObs::Maybe,
        HasMore::No => HasMoreObs::No,
    }
}

fn closure_tick(ctx: &Ctx) {
    let k = ctx
        .closure_calls
        .fetch_add(1, std::sync::atomic::Ordering::SeqCst);
    sim::sched_point("closure");
    if ctx.closure_panic_at == Some(k) {
        elems::inject_panic("closure");
    }
}

/// Executes one thread's operation list on the shared iterator.
pub fn run_ops<C>(it: &C, tid: usize, ops: &[Op], ctx: &Ctx)
where
    C: ConcurrentIter,
    C::Item: Obs,
{
    let mut buf = None;
    let mut buf_size = 0usize;
    for (oi, op) in ops.iter().enumerate() {
        match *op {
            Op::InUnwind => {
                struct RunOnDrop<F: FnMut()>(F);
                impl<F: FnMut()> Drop for RunOnDrop<F> {
                    fn drop(&mut self) {
                        (self.0)()
                    }
                }
                let rest = &ops[oi + 1..];
                // a teardown of the run (SimAbort) must not escape from the destructor
                let mut abort: Option<Box<dyn std::any::Any + Send>> = None;
                {
                    let abort_slot = &mut abort;
                    let _ = catch_unwind(AssertUnwindSafe(|| {
                        let _g = RunOnDrop(|| {
                            sim::set_unwind_ctx(true);
                            if let Err(p) =
                                catch_unwind(AssertUnwindSafe(|| run_ops(it, tid, rest, ctx)))
                            {
                                *abort_slot = Some(p);
                            }
                            sim::set_unwind_ctx(false);
                        });
                        elems::inject_panic("caller-unwinding")
                    }));
                }
                if let Some(p) = abort {
                    resume_unwind(p);
                }
                break;
            }
            Op::Next => {
                call(ctx, tid, CallKind::Next, 1, || match it.next() {
                    Some(x) => Res::Item {
                        idx: None,
                        obs: x.obs(),
                    },
                    None => Res::End,
                });
            }
            Op::NextIdVal => {
                call(ctx, tid, CallKind::NextIdVal, 1, || {
                    match it.next_id_and_value() {
                        Some(x) => Res::Item {
                            idx: Some(x.idx),
                            obs: x.value.obs(),
                        },
                        None => Res::End,
                    }
                });
            }
            Op::Chunk(n, k) => {
                call(ctx, tid, CallKind::Chunk, n, || match it.next_chunk(n) {
                    Some(c) => consume_chunk(ctx, c.begin_idx, n, c.values, k),
                    // nothing was requested and nothing was returned: not an end report
                    // (C16 has its own model of zero-size pulls)
                    None if n == 0 && ctx.zero_is_noop => Res::Unit,
                    None => Res::End,
                });
            }
            Op::BufNew(n) => {
                // dropping the previous buffered iterator is part of this call
                let old = buf.take();
                let mut created = None;
                call(ctx, tid, CallKind::BufNew, n, || {
                    drop(old);
                    created = Some(it.buffered_iter(n));
                    Res::Unit
                });
                buf = created;
                buf_size = n;
            }
            Op::BufNext(k) => {
                if let Some(b) = buf.as_mut() {
                    call(ctx, tid, CallKind::BufNext, buf_size, || match b.next() {
                        Some(c) => consume_chunk(ctx, c.begin_idx, buf_size, c.values, k),
                        None => Res::End,
                    });
                }
            }
            Op::BufDrop => {
                if let Some(b) = buf.take() {
                    call(ctx, tid, CallKind::BufDrop, 0, || {
                        drop(b);
                        Res::Unit
                    });
                }
            }
            Op::Values(m) => {
                let mut v = it.values();
                for _ in 0..m {
                    let r = call(ctx, tid, CallKind::ValuesNext, 1, || match v.next() {
                        Some(x) => Res::Item {
                            idx: None,
                            obs: x.obs(),
                        },
                        None => Res::End,
                    });
                    if r == Res::End {
                        break;
                    }
                }
            }
            Op::IdsValues(m) => {
                let mut v = it.ids_and_values();
                for _ in 0..m {
                    let r = call(ctx, tid, CallKind::IdsValuesNext, 1, || match v.next() {
                        Some((i, x)) => Res::Item {
                            idx: Some(i),
                            obs: x.obs(),
                        },
                        None => Res::End,
                    });
                    if r == Res::End {
                        break;
                    }
                }
            }
            Op::IdsValuesNth(k) => {
                call(ctx, tid, CallKind::IdsValuesNext, k, || {
                    match it.ids_and_values().nth(k) {
                        Some((i, x)) => Res::Item {
                            idx: Some(i),
                            obs: x.obs(),
                        },
                        None => Res::End,
                    }
                });
            }
            Op::ForEach(n) => {
                let seen = Mutex::new(Vec::new());
                let r = call(ctx, tid, CallKind::ForEach, n, || {
                    it.for_each(n, |x| {
                        let o = x.obs();
                        {
                            let _p = alloc::pause();
                            seen.lock().unwrap_or_else(|e| e.into_inner()).push((None, o));
                        }
                        closure_tick(ctx);
                        drop(x);
                    });
                    Res::Unit
                });
                patch_multi(ctx, tid, r, seen, 0);
            }
            Op::EnumForEach(n) => {
                let seen = Mutex::new(Vec::new());
                let r = call(ctx, tid, CallKind::EnumForEach, n, || {
                    it.enumerate_for_each(n, |i, x| {
                        let o = x.obs();
                        {
                            let _p = alloc::pause();
                            seen.lock()
                                .unwrap_or_else(|e| e.into_inner())
                                .push((Some(i), o));
                        }
                        closure_tick(ctx);
                        drop(x);
                    });
                    Res::Unit
                });
                patch_multi(ctx, tid, r, seen, 0);
            }
            Op::Fold(n) => {
                let seen = Mutex::new(Vec::new());
                let mut acc_out = 0u64;
                let r = call(ctx, tid, CallKind::Fold, n, || {
                    // the accumulator owns the element visited last: a fold that mishandles its
                    // accumulator when the closure panics destroys that element twice or never
                    let (acc, last) = it.fold(n, (0u64, None), |(acc, prev), x| {
                        let o = x.obs();
                        {
                            let _p = alloc::pause();
                            seen.lock().unwrap_or_else(|e| e.into_inner()).push((None, o));
                        }
                        closure_tick(ctx);
                        drop(prev);
                        (acc.wrapping_add(fold_term(&o)), Some(x))
                    });
                    drop(last);
                    acc_out = acc;
                    Res::Unit
                });
                patch_multi(ctx, tid, r, seen, acc_out);
            }
            Op::Len => {
                call(ctx, tid, CallKind::Len, 0, || Res::Len(it.try_get_len()));
            }
            Op::HasMore => {
                call(ctx, tid, CallKind::HasMore, 0, || {
                    Res::HasMore(has_more_obs(it.has_more()))
                });
            }
            Op::Skip => {
                call(ctx, tid, CallKind::Skip, 0, || {
                    it.skip_to_end();
                    Res::Unit
                });
                sim::interesting();
            }
            Op::Stop => break,
            Op::UseClone | Op::UseFresh | Op::UseOriginal => {
                // handled by run_ops_multi, which splits the list at these markers
            }
            Op::BasePull => {
                if let Some(b) = base_handle() {
                    call(ctx, tid, CallKind::BasePull, 1, || match b.pull() {
                        Some(o) => Res::Item { idx: None, obs: o },
                        // the base is exhausted: nothing was delivered; not an end report of
                        // the outer iterator
                        None => Res::Unit,
                    });
                }
            }
            Op::Drain(m, extra) => {
                let mut after_end = 0u32;
                let mut guard = 0usize;
                let mut local_buf = None;
                let mut values_it = None;
                let mut ids_it = None;
                loop {
                    let r = match m {
                        Method::Next => call(ctx, tid, CallKind::Next, 1, || match it.next() {
                            Some(x) => Res::Item {
                                idx: None,
                                obs: x.obs(),
                            },
                            None => Res::End,
                        }),
                        Method::NextIdVal => call(ctx, tid, CallKind::NextIdVal, 1, || {
                            match it.next_id_and_value() {
                                Some(x) => Res::Item {
                                    idx: Some(x.idx),
                                    obs: x.value.obs(),
                                },
                                None => Res::End,
                            }
                        }),
                        Method::Chunk(n) => {
                            call(ctx, tid, CallKind::Chunk, n, || match it.next_chunk(n) {
                                Some(c) => {
                                    consume_chunk(ctx, c.begin_idx, n, c.values, usize::MAX)
                                }
                                None => Res::End,
                            })
                        }
                        Method::Buf(n) => {
                            if local_buf.is_none() {
                                let mut created = None;
                                call(ctx, tid, CallKind::BufNew, n, || {
                                    created = Some(it.buffered_iter(n));
                                    Res::Unit
                                });
                                local_buf = created;
                            }
                            match local_buf.as_mut() {
                                Some(b) => {
                                    call(ctx, tid, CallKind::BufNext, n, || match b.next() {
                                        Some(c) => consume_chunk(
                                            ctx,
                                            c.begin_idx,
                                            n,
                                            c.values,
                                            usize::MAX,
                                        ),
                                        None => Res::End,
                                    })
                                }
                                None => Res::End,
                            }
                        }
                        Method::Values => {
                            let v = values_it.get_or_insert_with(|| it.values());
                            call(ctx, tid, CallKind::ValuesNext, 1, || match v.next() {
                                Some(x) => Res::Item {
                                    idx: None,
                                    obs: x.obs(),
                                },
                                None => Res::End,
                            })
                        }
                        Method::IdsValues => {
                            let v = ids_it.get_or_insert_with(|| it.ids_and_values());
                            call(ctx, tid, CallKind::IdsValuesNext, 1, || match v.next() {
                                Some((i, x)) => Res::Item {
                                    idx: Some(i),
                                    obs: x.obs(),
                                },
                                None => Res::End,
                            })
                        }
                    };
                    guard += 1;
                    match r {
                        Res::End | Res::Panicked { .. } => {
                            if after_end >= extra {
                                break;
                            }
                            after_end += 1;
                        }
                        _ => {
                            if after_end > 0 {
                                // delivered after an end: keep pulling, bounded by the guard
                                after_end = 0;
                            }
                        }
                    }
                    if guard > ctx.len.saturating_mul(3).saturating_add(80) {
                        break;
                    }
                }
                if let Some(b) = local_buf.take() {
                    call(ctx, tid, CallKind::BufDrop, 0, || {
                        drop(b);
                        Res::Unit
                    });
                }
            }
        }
    }
    if let Some(b) = buf.take() {
        call(ctx, tid, CallKind::BufDrop, 0, || {
            drop(b);
            Res::Unit
        });
    }
}

pub fn fold_term(o: &ItemObs) -> u64 {
    o.raw.wrapping_mul(0x9E37_79B9).wrapping_add(o.payload | 1)
}

/// for_each/fold record their closure arguments on the side; fold them into the call record.
fn patch_multi(
    ctx: &Ctx,
    tid: usize,
    r: Res,
    seen: Mutex<Vec<(Option<usize>, ItemObs)>>,
    acc: u64,
) {
    let _p = alloc::pause();
    let items = seen.into_inner().unwrap_or_else(|e| e.into_inner());
    let mut calls = ctx.calls.lock().unwrap_or_else(|e| e.into_inner());
    // the call record of this thread's last composite call
    let mut extra = None;
    if let Some(c) = calls
        .iter_mut()
        .rev()
        .find(|c| c.tid == tid && c.kind.is_composite())
    {
        match r {
            Res::Unit => {
                c.res = Res::Multi { items, acc };
                if ctx.kind.is_zst() {
                    patch_zst(&mut c.res, ctx.seed);
                }
            }
            Res::Panicked { .. } => {
                // keep the panic, and remember what was visited before it in a sibling record
                extra = Some(Call {
                    iter: c.iter,
                    tid,
                    kind: c.kind,
                    arg: usize::MAX,
                    invoke: c.invoke,
                    ret: c.ret,
                    res: Res::Multi { items, acc },
                });
            }
            _ => {}
        }
    }
    if let Some(mut e) = extra {
        if ctx.kind.is_zst() {
            patch_zst(&mut e.res, ctx.seed);
        }
        calls.push(e);
    }
}

// ---------------------------------------------------------------------------------------------
// drivers per source kind

struct DriveOut {
    calls: Vec<Call>,
    seq_items: Option<Vec<ItemObs>>,
    terminal_panic: Option<String>,
    sim: SimOutcome,
}

/// Type-erased access to the base iterator of `Kind::NestedValues` for `Op::BasePull`; set for
/// the duration of one run by `execute`.
#[derive(Clone, Copy)]
pub struct BaseHandle {
    ptr: *const (),
    next: unsafe fn(*const ()) -> Option<ItemObs>,
}

unsafe impl Send for BaseHandle {}
unsafe impl Sync for BaseHandle {}

impl BaseHandle {
    fn pull(&self) -> Option<ItemObs> {
        // SAFETY: the pointee outlives the run (cleared by `execute` before it is dropped)
        unsafe { (self.next)(self.ptr) }
    }
}

static BASE: Mutex<Option<BaseHandle>> = Mutex::new(None);

fn base_handle() -> Option<BaseHandle> {
    *BASE.lock().unwrap_or_else(|e| e.into_inner())
}

unsafe fn base_next_of_slice(p: *const ()) -> Option<ItemObs> {
    let it = &*(p as *const orx_concurrent_iter::ConIterOfSlice<'static, Elem>);
    it.next().map(|x| x.obs())
}

fn drive<C>(cfg: &RunCfg, it: C) -> DriveOut
where
    C: ConcurrentIter,
    C::Item: Obs,
{
    drive_with(cfg, it, |itr, t, ops, ctx| run_ops(itr, t, ops, ctx))
}

/// C19: several iterators over one collection. `make` creates a fresh iterator over it.
fn drive_multi<C, M>(cfg: &RunCfg, it: C, make: M) -> DriveOut
where
    C: ConcurrentIter + Clone,
    C::Item: Obs,
    M: Fn() -> C + Sync,
{
    drive_with(cfg, it, |itr, t, ops, ctx| {
        run_ops_multi(itr, &make, t, ops, ctx)
    })
}

/// Executes a thread's list, switching between the original iterator, clones of it and fresh
/// iterators at the `Use*` markers. Every created iterator gets an id of its own.
fn run_ops_multi<C, M>(orig: &C, make: &M, tid: usize, ops: &[Op], ctx: &Ctx)
where
    C: ConcurrentIter + Clone,
    C::Item: Obs,
    M: Fn() -> C,
{
    run_ops_multi_with(orig, make, &|o: &C| Holder::Owned(o.clone()), tid, ops, ctx)
}

/// What `.clone()` on a shared iterator returned: an iterator of its own, or (if the type is not
/// `Clone` for this element type and method resolution silently fell back to cloning the
/// reference, seeded change C19-r2) just another reference to the original.
pub enum Holder<'x, C> {
    Owned(C),
    Shared(&'x C),
}

impl<C> Holder<'_, C> {
    fn get(&self) -> &C {
        match self {
            Holder::Owned(c) => c,
            Holder::Shared(c) => c,
        }
    }
}

pub trait IntoHolder<'x, C> {
    fn hold(self) -> Holder<'x, C>;
}

impl<'x, C> IntoHolder<'x, C> for C {
    fn hold(self) -> Holder<'x, C> {
        Holder::Owned(self)
    }
}

impl<'x, C> IntoHolder<'x, C> for &'x C {
    fn hold(self) -> Holder<'x, C> {
        Holder::Shared(self)
    }
}

fn run_ops_multi_with<'x, C, M, K>(
    orig: &'x C,
    make: &M,
    clone_it: &K,
    tid: usize,
    ops: &[Op],
    ctx: &Ctx,
) where
    C: ConcurrentIter,
    C::Item: Obs,
    M: Fn() -> C,
    K: Fn(&'x C) -> Holder<'x, C>,
{
    let mut private: Option<Holder<'x, C>> = None;
    let mut serial = 0u32;
    let mut start = 0usize;
    let mut i = 0usize;
    loop {
        let at_marker = i < ops.len()
            && matches!(ops[i], Op::UseClone | Op::UseFresh | Op::UseOriginal);
        if i == ops.len() || at_marker {
            let seg = &ops[start..i];
            let stopped = seg.contains(&Op::Stop);
            match &private {
                Some(p) => run_ops(p.get(), tid, seg, ctx),
                None => run_ops(orig, tid, seg, ctx),
            }
            if i == ops.len() || stopped {
                break;
            }
            // switch
            let marker = ops[i];
            if let Some(p) = private.take() {
                drop(p);
            }
            CUR_ITER.with(|c| c.set(0));
            match marker {
                Op::UseClone | Op::UseFresh => {
                    serial += 1;
                    let id = (tid as u32 + 1) * 16 + serial;
                    let mut created = None;
                    let kind = if marker == Op::UseClone {
                        CallKind::CloneIter
                    } else {
                        CallKind::FreshIter
                    };
                    CUR_ITER.with(|c| c.set(id));
                    call(ctx, tid, kind, 0, || {
                        created = Some(if marker == Op::UseClone {
                            clone_it(orig)
                        } else {
                            Holder::Owned(make())
                        });
                        Res::Unit
                    });
                    private = created;
                }
                _ => {}
            }
            start = i + 1;
        }
        i += 1;
    }
    drop(private);
    CUR_ITER.with(|c| c.set(0));
}

fn drive_with<C, R>(cfg: &RunCfg, it: C, runner: R) -> DriveOut
where
    C: ConcurrentIter,
    C::Item: Obs,
    R: Fn(&C, usize, &[Op], &Ctx) + Sync,
{
    let ctx = Ctx {
        calls: Mutex::new(Vec::new()),
        closure_calls: std::sync::atomic::AtomicU32::new(0),
        closure_panic_at: match cfg.panic {
            Some((PanicSite::Closure, k)) => Some(k),
            _ => None,
        },
        consumer_elems: std::sync::atomic::AtomicU32::new(0),
        consumer_panic_at: match cfg.panic {
            Some((PanicSite::Consumer, k)) => Some(k),
            _ => None,
        },
        kind: cfg.kind,
        len: cfg.len,
        consume_nth: cfg.consume_nth,
        nth_at: cfg.nth_at,
        zero_is_noop: cfg.prop != "C16",
        finish: cfg.finish,
        seed: cfg.run_seed,
    };
    sim::begin_run(cfg.sim.clone());
    let n = cfg.threads.len();
    let pre_t = sim::pre_tid(n);
    let term_t = sim::term_tid(n);
    // phase 1: sequential prefix (one virtual thread)
    if !cfg.pre.is_empty() {
        let itr = &it;
        let ctxr = &ctx;
        sim::run_phase(&[pre_t], |t| runner(itr, t, &cfg.pre, ctxr));
    }
    // phase 2: the concurrent part
    {
        let itr = &it;
        let ctxr = &ctx;
        let tids: Vec<usize> = (0..n).collect();
        sim::run_phase(&tids, |t| {
            runner(itr, t, &cfg.threads[t], ctxr);
        });
    }
    // phase 3: terminal action (all other virtual threads joined), also a virtual thread so that
    // a hang in it is a verdict and not a hung process
    let mut seq_items = None;
    let mut terminal_panic = None;
    if sim::aborted() {
        // torn-down run: no oracle is evaluated; dropping the iterator is still attempted
        let _t = alloc::track();
        let r = catch_unwind(AssertUnwindSafe(|| drop(it)));
        if r.is_err() {
            take_panics();
        }
    } else {
        let slot = Mutex::new(Some(it));
        let result: Mutex<Option<(u64, u64, std::thread::Result<Option<Vec<ItemObs>>>)>> =
            Mutex::new(None);
        sim::run_phase(&[term_t], |_| {
            let it = slot
                .lock()
                .unwrap_or_else(|e| e.into_inner())
                .take()
                .expect("iterator present");
            if std::env::var_os("ORXSIM_PHASE_MARK").is_some() {
                // read by the parent when this process dies (line-buffered stdout)
                let _p = alloc::pause();
                println!("PHASE terminal");
            }
            let invoke = sim::call_begin();
            let r = {
                let _t = alloc::track();
                catch_unwind(AssertUnwindSafe(|| match cfg.terminal {
                    Terminal::Drop => {
                        drop(it);
                        None
                    }
                    Terminal::IntoSeq(m) => {
                        let mut s = it.into_seq_iter();
                        let mut out = Vec::new();
                        let mut k = 0usize;
                        while k < m {
                            match s.next() {
                                Some(x) => {
                                    let o = x.obs();
                                    let _p = alloc::pause();
                                    out.push(o);
                                }
                                None => break,
                            }
                            k += 1;
                            if k > cfg.len.saturating_add(64) {
                                break;
                            }
                        }
                        drop(s);
                        Some(out)
                    }
                }))
            };
            if let Err(p) = &r {
                if p.is::<SimAbort>() {
                    return;
                }
            }
            let ret = sim::call_end();
            let _p = alloc::pause();
            *result.lock().unwrap_or_else(|e| e.into_inner()) = Some((invoke, ret, r));
        });
        // an iterator that was never taken (phase did not start) is dropped here
        drop(slot);
        if let Some((invoke, ret, r)) = result.into_inner().unwrap_or_else(|e| e.into_inner()) {
            let (kind, res) = match r {
                Ok(items) => {
                    let k = if items.is_some() {
                        CallKind::IntoSeq
                    } else {
                        CallKind::DropIter
                    };
                    seq_items = items;
                    (k, Res::Unit)
                }
                Err(p) => {
                    let injected = p.is::<elems::Injected>();
                    let msg = take_panics().last().cloned().unwrap_or_default();
                    if !injected {
                        terminal_panic = Some(msg.clone());
                    }
                    (CallKind::DropIter, Res::Panicked { injected, msg })
                }
            };
            ctx.record(Call {
                iter: 0,
                tid: term_t,
                kind,
                arg: 0,
                invoke,
                ret,
                res,
            });
        }
    }
    let simout = sim::end_run();
    DriveOut {
        calls: ctx.calls.into_inner().unwrap_or_else(|e| e.into_inner()),
        seq_items,
        terminal_panic,
        sim: simout,
    }
}

fn make_arr<E, const N: usize>(mk: &impl Fn(u32) -> E) -> [E; N] {
    let mut i = 0u32;
    std::array::from_fn(|_| {
        let e = mk(i);
        i += 1;
        e
    })
}

macro_rules! with_array {
    ($len:expr, $mk:expr, $body:ident, $cfg:expr) => {
        match $len {
            0 => $body($cfg, make_arr::<_, 0>(&$mk)),
            1 => $body($cfg, make_arr::<_, 1>(&$mk)),
            2 => $body($cfg, make_arr::<_, 2>(&$mk)),
            3 => $body($cfg, make_arr::<_, 3>(&$mk)),
            4 => $body($cfg, make_arr::<_, 4>(&$mk)),
            5 => $body($cfg, make_arr::<_, 5>(&$mk)),
            6 => $body($cfg, make_arr::<_, 6>(&$mk)),
            8 => $body($cfg, make_arr::<_, 8>(&$mk)),
            12 => $body($cfg, make_arr::<_, 12>(&$mk)),
            16 => $body($cfg, make_arr::<_, 16>(&$mk)),
            24 => $body($cfg, make_arr::<_, 24>(&$mk)),
            33 => $body($cfg, make_arr::<_, 33>(&$mk)),
            64 => $body($cfg, make_arr::<_, 64>(&$mk)),
            other => panic!("unsupported array length {other}"),
        }
    };
}

/// Executes one configured run against the real crate and returns everything observed.
pub fn execute(cfg: &RunCfg, run_no: u32) -> RunRecord {
    let _quiet = take_panics();
    let seed = cfg.run_seed;
    let n = cfg.len;
    let clone_panic = match cfg.panic {
        Some((PanicSite::Clone, k)) => Some(k),
        _ => None,
    };
    let probe_panic = match cfg.panic {
        Some((PanicSite::WrappedNext, k)) => Some(k),
        _ => None,
    };
    // ranges have no elements with identity (and may be astronomically long)
    let tail = if cfg.kind.is_iter() { cfg.tail } else { 0 };
    let ledger_n = if cfg.kind.is_range() || cfg.kind.is_endless() {
        0
    } else {
        n + tail
    };
    elems::ledger_reset(ledger_n, run_no, clone_panic);
    elems::probe_reset(probe_panic);
    elems::set_drop_panic(match cfg.panic {
        Some((PanicSite::ElemDrop, k)) => Some(k),
        _ => None,
    });
    alloc::reset();
    alloc::enable(true);
    let heap = cfg.heap_bytes;
    let mk = |i: u32| Elem::new(i, run_no, seed, heap);
    let total = n + tail;
    // a quarter of the vectors have spare capacity (capacity != length matters to code that
    // rebuilds or releases the buffer by hand)
    let slack = if (seed >> 17) % 4 == 0 { 1 + ((seed >> 19) % 5) as usize } else { 0 };
    let mk_vec = || {
        let _t = alloc::track();
        let mut v = Vec::with_capacity(total + slack);
        v.extend((0..total as u32).map(mk));
        v
    };
    let mk_plain = || {
        (0..total as u32)
            .map(|i| Plain {
                id: i,
                payload: elems::payload_of(seed, i as u64),
            })
            .collect::<Vec<Plain>>()
    };

    let mut rec = RunRecord {
        source_intact: true,
        ..Default::default()
    };
    let out: DriveOut = match cfg.kind {
        Kind::Slice | Kind::SliceRef | Kind::VecRef => {
            let data = mk_vec();
            rec.base_addr = data.as_ptr() as usize;
            rec.elem_size = std::mem::size_of::<Elem>();
            let o = match cfg.kind {
                Kind::Slice => {
                    drive_multi(cfg, data.as_slice().into_con_iter(), || {
                        data.as_slice().into_con_iter()
                    })
                }
                Kind::SliceRef => {
                    let s = data.as_slice();
                    drive_multi(cfg, s.con_iter(), || s.con_iter())
                }
                _ => drive_multi(cfg, data.con_iter(), || data.con_iter()),
            };
            check_source(&mut rec, &data, seed);
            o
        }
        Kind::ArrayRef => {
            fn body<const N: usize>(
                cfg: &RunCfg,
                arr: [Elem; N],
            ) -> (DriveOut, usize, bool, u32) {
                let base = arr.as_ptr() as usize;
                let o = drive_multi(cfg, arr.con_iter(), || arr.con_iter());
                let (intact, drops) = source_state(&arr, cfg.run_seed);
                (o, base, intact, drops)
            }
            let (o, base, intact, drops) = with_array!(n, mk, body, cfg);
            rec.base_addr = base;
            rec.elem_size = std::mem::size_of::<Elem>();
            rec.source_intact = intact;
            rec.source_drops_before_end = drops;
            o
        }
        Kind::Vec => {
            let data = mk_vec();
            let it = {
                let _t = alloc::track();
                // both public constructors
                if seed & 1 == 0 {
                    data.into_con_iter()
                } else {
                    ConIterOfVec::from(data)
                }
            };
            drive(cfg, it)
        }
        Kind::Array => {
            fn body<const N: usize>(cfg: &RunCfg, arr: [Elem; N]) -> DriveOut {
                drive(cfg, arr.into_con_iter())
            }
            with_array!(n, mk, body, cfg)
        }
        Kind::SliceNoClone => {
            let data: Vec<NoClone> = (0..n as u32)
                .map(|i| NoClone {
                    id: i,
                    payload: elems::payload_of(seed, i as u64),
                })
                .collect();
            rec.base_addr = data.as_ptr() as usize;
            rec.elem_size = std::mem::size_of::<NoClone>();
            let slice: &[NoClone] = &data;
            let it: ConIterOfSlice<'_, NoClone> = slice.con_iter();
            // deliberately NOT generic over the iterator type: `o.clone()` below is resolved for
            // the concrete type, exactly as in client code that holds a `&ConIterOfSlice<T>`
            let o = drive_with(cfg, it, |itr, t, ops, ctx| {
                run_ops_multi_with(
                    itr,
                    &|| slice.con_iter(),
                    &|o: &ConIterOfSlice<'_, NoClone>| IntoHolder::hold(o.clone()),
                    t,
                    ops,
                    ctx,
                )
            });
            rec.source_intact = data
                .iter()
                .enumerate()
                .all(|(i, e)| e.id as usize == i && e.payload == elems::payload_of(seed, i as u64));
            o
        }
        Kind::VecZst => {
            let data: Vec<Token> = (0..n).map(|_| Token).collect();
            drive(cfg, data.into_con_iter())
        }
        Kind::ArrayZst => {
            fn body<const N: usize>(cfg: &RunCfg, arr: [Token; N]) -> DriveOut {
                drive(cfg, arr.into_con_iter())
            }
            let mk_token = |_i: u32| Token;
            with_array!(n, mk_token, body, cfg)
        }
        Kind::Range => {
            let end = cfg.range_end.unwrap_or(cfg.start.wrapping_add(n));
            drive_multi(cfg, IntoConcurrentIter::into_con_iter(cfg.start..end), || {
                IntoConcurrentIter::into_con_iter(cfg.start..end)
            })
        }
        Kind::RangeRef => {
            let end = cfg.range_end.unwrap_or(cfg.start.wrapping_add(n));
            let r = cfg.start..end;
            let o = drive_multi(cfg, r.con_iter(), || r.con_iter());
            rec.source_intact = r == (cfg.start..end);
            o
        }
        Kind::IterOwned => {
            let data = mk_vec();
            let it = {
                let _t = alloc::track();
                if seed & 1 == 0 {
                    probe_of(data.into_iter(), n, cfg).into_con_iter()
                } else {
                    ConIterOfIter::from(probe_of(data.into_iter(), n, cfg))
                }
            };
            drive(cfg, it)
        }
        Kind::IterRef => {
            let data = mk_vec();
            rec.base_addr = data.as_ptr() as usize;
            rec.elem_size = std::mem::size_of::<Elem>();
            let o = drive(cfg, probe_of(data.iter(), n, cfg).into_con_iter());
            check_source(&mut rec, &data, seed);
            o
        }
        Kind::ClonedSlice => {
            let data = mk_vec();
            let o = drive(cfg, data.con_iter().cloned());
            check_source(&mut rec, &data, seed);
            o
        }
        Kind::ClonedIter => {
            let data = mk_vec();
            let o = drive(
                cfg,
                probe_of(data.iter(), n, cfg).into_con_iter().cloned(),
            );
            check_source(&mut rec, &data, seed);
            o
        }
        Kind::CopiedSlice => {
            let data = mk_plain();
            let o = drive(cfg, data.con_iter().copied());
            rec.source_intact = plain_intact(&data, seed);
            o
        }
        Kind::CopiedIter => {
            let data = mk_plain();
            let o = drive(
                cfg,
                probe_of(data.iter(), n, cfg).into_con_iter().copied(),
            );
            rec.source_intact = plain_intact(&data, seed);
            o
        }
        Kind::PlainSlice => {
            let data = mk_plain();
            rec.base_addr = data.as_ptr() as usize;
            rec.elem_size = std::mem::size_of::<Plain>();
            let o = drive(cfg, data.con_iter());
            rec.source_intact = plain_intact(&data, seed);
            o
        }
        Kind::ClonedStampSlice | Kind::StampSlice => {
            let data: Vec<Stamp> = (0..n as u32)
                .map(|i| Stamp {
                    id: i,
                    run: run_no,
                    gen: 0,
                    payload: elems::payload_of(seed, i as u64),
                })
                .collect();
            rec.base_addr = data.as_ptr() as usize;
            rec.elem_size = std::mem::size_of::<Stamp>();
            let o = if cfg.kind == Kind::StampSlice {
                drive(cfg, data.con_iter())
            } else {
                drive(cfg, data.con_iter().cloned())
            };
            rec.source_intact = data.iter().enumerate().all(|(i, e)| {
                e.id as usize == i && e.gen == 0 && e.payload == elems::payload_of(seed, i as u64)
            });
            o
        }
        Kind::EndlessIter => {
            // cfg.len is only a bound for the model; the source never returns None
            let src = (0u32..).map(move |i| Plain {
                id: i,
                payload: elems::payload_of(seed, i as u64),
            });
            drive(cfg, Probe::new(src, n, Hint::Unbounded).into_con_iter())
        }
        Kind::NestedValues => {
            let data = mk_vec();
            rec.base_addr = data.as_ptr() as usize;
            rec.elem_size = std::mem::size_of::<Elem>();
            let base = data.as_slice().into_con_iter();
            *BASE.lock().unwrap_or_else(|e| e.into_inner()) = Some(BaseHandle {
                ptr: &base as *const _ as *const (),
                next: base_next_of_slice,
            });
            let o = drive(cfg, base.values().into_con_iter());
            *BASE.lock().unwrap_or_else(|e| e.into_inner()) = None;
            drop(base);
            check_source(&mut rec, &data, seed);
            o
        }
        Kind::PlainIter => {
            let data = mk_plain();
            rec.base_addr = data.as_ptr() as usize;
            rec.elem_size = std::mem::size_of::<Plain>();
            let o = drive(cfg, probe_of(data.iter(), n, cfg).into_con_iter());
            rec.source_intact = plain_intact(&data, seed);
            o
        }
    };
    alloc::enable(false);
    rec.calls = out.calls;
    rec.seq_items = out.seq_items;
    rec.terminal_panic = out.terminal_panic;
    rec.sim = out.sim;
    rec.ledger = elems::ledger_snapshot();
    rec.probe = elems::probe_snapshot();
    rec.leaked = alloc::live();
    rec.layout_mismatch = alloc::layout_mismatch();
    rec.unexpected_panics = take_panics();
    rec
}

impl RunCfg {
    /// The iterator under test knows its length: a known-size kind, or a wrapped iterator (probe)
    /// with an exact size hint.
    pub fn sized(&self) -> bool {
        self.kind.known_size() || (self.kind.is_iter() && self.hint == Hint::Exact)
    }

    /// The wrapped iterator announces fewer elements than it yields: the crate cannot know the
    /// length, so chunk sizes (clamped to the announced length) and length queries are not held
    /// against the model; exactly-once, indices, the end report and its permanence still are.
    pub fn lying_hint(&self) -> bool {
        (self.hint_short > 0 || self.hint_long > 0)
            && self.kind.is_iter()
            && self.hint == Hint::Exact
    }
}

fn probe_of<I: Iterator>(inner: I, n: usize, cfg: &RunCfg) -> Probe<I> {
    let announced = if cfg.lying_hint() {
        n.saturating_sub(cfg.hint_short) + cfg.hint_long
    } else {
        n
    };
    let p = Probe::new(inner, announced, cfg.hint);
    if cfg.tail > 0 {
        p.not_fused()
    } else {
        p
    }
}

fn source_state(data: &[Elem], seed: u64) -> (bool, u32) {
    let l = elems::ledger_snapshot();
    let drops: u32 = l.dropped.iter().sum();
    let intact = data.iter().enumerate().all(|(i, e)| {
        e.id as usize == i && e.gen == 0 && e.payload == elems::payload_of(seed, i as u64)
    });
    (intact, drops)
}

fn check_source(rec: &mut RunRecord, data: &[Elem], seed: u64) {
    let (intact, drops) = source_state(data, seed);
    rec.source_intact = intact;
    rec.source_drops_before_end = drops;
}

fn plain_intact(data: &[Plain], seed: u64) -> bool {
    data.iter()
        .enumerate()
        .all(|(i, e)| e.id as usize == i && e.payload == elems::payload_of(seed, i as u64))
}

/// Hash of everything observable about a run (C17 compares it between two builds of the same code).
pub fn transcript_hash(rec: &RunRecord) -> u64 {
    let mut w: Vec<u64> = Vec::new();
    for c in &rec.calls {
        w.push(c.tid as u64);
        w.push(c.kind as u64);
        w.push(c.arg as u64);
        w.push(c.invoke);
        w.push(c.ret);
        hash_res(&c.res, &mut w);
        match &c.res {
            Res::Chunk { lens, exhausted, impossible, items, .. } => {
                w.extend(lens.iter().map(|&l| l as u64));
                w.push(*exhausted as u64);
                w.push(*impossible as u64);
                w.extend(items.iter().map(|o| o.payload));
            }
            Res::Item { obs, .. } => w.push(obs.payload),
            Res::Panicked { msg, .. } => w.extend(msg.bytes().map(|b| b as u64)),
            _ => {}
        }
    }
    match &rec.seq_items {
        Some(items) => {
            w.push(1);
            w.extend(items.iter().map(|o| o.raw));
        }
        None => w.push(0),
    }
    let l = &rec.ledger;
    w.extend(l.dropped.iter().map(|&x| x as u64));
    w.extend(l.clones.iter().map(|&x| x as u64));
    w.extend(l.clone_drops.iter().map(|&x| x as u64));
    w.push(l.double_drops.len() as u64);
    w.push(l.foreign_drops as u64);
    w.push(rec.leaked.0 as u64);
    w.push(rec.leaked.1 as u64);
    w.push(rec.source_intact as u64);
    w.push(rec.source_drops_before_end as u64);
    w.push(rec.sim.aborted as u64);
    w.push(match &rec.sim.verdict {
        None => 0,
        Some(crate::sim::Verdict::Deadlock(_)) => 1,
        Some(crate::sim::Verdict::StepCap(_)) => 2,
    });
    for m in &rec.unexpected_panics {
        w.extend(m.bytes().map(|b| b as u64));
    }
    if let Some(m) = &rec.terminal_panic {
        w.extend(m.bytes().map(|b| b as u64));
    }
    crate::rng::mix(&w)
}
